"""
Exact training programs for the checks on `jinns.solve` (C07, C18, C19).

A *segment* (JSON dict, see `random_segment`) describes one call of the real `jinns.solve`:
initial `Params` (small dyadics), a user loss (`ExactLoss`, an `eqx.Module` whose terms are sums of
monomials c * prod p[i] * z[l] in the flattened parameters and in sums / sums of squares of the
batch columns), an optax optimizer of the exact family (sgd, momentum, piecewise-constant
schedule, optional NaN-emitting transformation), real jinns generators (`DataGeneratorODE` grid,
`DataGeneratorParameter` grid, `DataGeneratorObservations`), a tracked-parameter specification and
optionally a validation module (scripted, or the real `ValidationLoss`).

`run_segment` runs it (through an outer `jax.jit` so that one compilation serves many data
variations, or as a plain call) and returns the observation: the 9-tuple as exact rationals, the
batches recorded by the loss inside the compiled loop (ordered `jax.debug.callback`), the calls
recorded by the validation module.  `lean_prog` builds the model-side description; the reference
batch stream is obtained by replaying the generators *outside* the loop (PRNG = oracle input).
"""
from __future__ import annotations

import contextlib
import io
import json
import math
from fractions import Fraction

from harness import core

LOG: list = []          # filled by the debug callbacks, in program order
_CACHE: dict = {}       # jitted solve wrappers, optimizers, classes (per worker process)
NAN = "nan"
INF = "inf"      # +infinity (only ever in a parameter leaf no loss term reads: see harness/c07.py)


# ------------------------------------------------------------------------------------------------
# exact numbers <-> JSON
# ------------------------------------------------------------------------------------------------
def qs(x) -> str:
    """exact value of a finite float / int as "p/q" (same format as core.qstr, without Fraction overhead)"""
    if isinstance(x, int):
        return str(x)
    num, den = float(x).as_integer_ratio()
    return str(num) if den == 1 else f"{num}/{den}"


def vstr(x) -> str:
    x = float(x)
    if x != x:
        return NAN
    if math.isinf(x):
        if x > 0:
            return INF
        raise ValueError("negative infinite value in an exact program")
    return qs(x)


def vlist(a):
    import numpy as np
    return [vstr(x) for x in np.asarray(a, dtype=float).ravel().tolist()]


def F(s) -> Fraction:
    return Fraction(s)


def fl(s) -> float:
    return float(Fraction(s))


# ------------------------------------------------------------------------------------------------
# jax-side objects (created lazily inside the worker)
# ------------------------------------------------------------------------------------------------
def _classes():
    if "classes" in _CACHE:
        return _CACHE["classes"]
    import jax
    import jax.numpy as jnp
    import numpy as np
    import equinox as eqx
    import optax
    from typing import NamedTuple
    from jinns.validation._validation import AbstractValidationModule

    def _rec(tag, *arrs):
        LOG.append((tag,) + tuple(np.asarray(a).copy() for a in arrs))

    @jax.custom_vjp
    def gscale(x, s):
        return x

    def _gs_fwd(x, s):
        return x, s

    def _gs_bwd(s, ct):
        return ct * s, jnp.zeros_like(s)

    gscale.defvjp(_gs_fwd, _gs_bwd)

    def batch_cols(batch):
        cols = [jnp.ravel(batch.temporal_batch)]
        if batch.param_batch_dict is not None:
            for k in sorted(batch.param_batch_dict):
                cols.append(jnp.ravel(batch.param_batch_dict[k]))
        if batch.obs_batch_dict is not None:
            cols.append(jnp.ravel(batch.obs_batch_dict["pinn_in"]))
            cols.append(jnp.ravel(batch.obs_batch_dict["val"]))
        return cols

    class ExactLoss(eqx.Module):
        coef: jax.Array                 # one coefficient per monomial
        mark: jax.Array                 # marked time point (NaN: none)
        gmask: jax.Array                # per flat parameter: 1.0, or NaN = gradient fault on marked batches
        struct: tuple = eqx.field(static=True)   # ((name, ((coef idx, (p idx…), z idx), …)), …)
        tag: str = eqx.field(static=True)
        record: bool = eqx.field(static=True, default=True)   # report (params, batch) of every evaluation

        def __call__(self, params, batch):
            return self.evaluate(params, batch)

        def evaluate(self, params, batch):
            cols = batch_cols(batch)
            flagged = jnp.any(cols[0] == self.mark)
            s_flat = jnp.where(flagged, self.gmask, 1.0)
            leaves = jax.tree_util.tree_leaves(params)
            parts, off = [], 0
            for leaf in leaves:
                sz = int(np.prod(leaf.shape)) if leaf.shape else 1
                s = s_flat[off:off + sz].reshape(leaf.shape)
                off += sz
                parts.append(jnp.ravel(gscale(leaf, s)))
            p = jnp.concatenate(parts)
            if self.record:
                jax.debug.callback(lambda p_, *c: _rec(self.tag, p_, *c), jax.lax.stop_gradient(p), *cols,
                                   ordered=True)
            z = [jnp.ones(())]
            for c in cols:
                z.append(jnp.sum(c))
                z.append(jnp.sum(c * c))
            z.append(jnp.where(flagged, jnp.nan, 1.0))
            terms = {}
            total = jnp.zeros(())
            for name, monos in self.struct:
                acc = jnp.zeros(())
                for ci, ps, zi in monos:
                    t = self.coef[ci]
                    for i in ps:
                        t = t * p[i]
                    t = t * z[zi]
                    acc = acc + t
                terms[name] = acc
                total = total + acc
            return total, terms

    class Scripted(AbstractValidationModule):
        """replays an outcome script indexed by its own call counter; records what it is called with"""
        call_every: int = eqx.field(kw_only=True, static=True)
        crit: jax.Array = eqx.field(kw_only=True)
        imp: jax.Array = eqx.field(kw_only=True)
        stop: jax.Array = eqx.field(kw_only=True)
        counter: jax.Array = eqx.field(kw_only=True)

        def __call__(self, params):
            k = jnp.minimum(self.counter, self.crit.shape[0] - 1)
            flat = jnp.concatenate([jnp.ravel(x) for x in jax.tree_util.tree_leaves(params)])
            jax.debug.callback(lambda c, p: _rec("S", c, p), self.counter, flat, ordered=True)
            new = eqx.tree_at(lambda t: t.counter, self, self.counter + 1)
            return new, self.stop[k], self.crit[k], self.imp[k]

    class NanAtState(eqx.Module):
        count: jax.Array
        k: jax.Array
        mask: tuple        # per leaf: 1.0 = emit NaN on this leaf at step k

    def nan_at():
        """user GradientTransformation with a step counter: at step `k` (held in its state, so that it is
        data and not a compile-time constant) the update of the masked leaves is replaced by NaN"""

        def init_fn(params):
            return NanAtState(jnp.zeros((), jnp.int32), jnp.asarray(-1, jnp.int32),
                              tuple(jnp.zeros(()) for _ in jax.tree_util.tree_leaves(params)))

        def update_fn(updates, state, params=None):
            leaves, treedef = jax.tree_util.tree_flatten(updates)
            hit = state.count == state.k
            new = [jnp.where(jnp.logical_and(hit, m > 0), jnp.nan, u) for u, m in zip(leaves, state.mask)]
            return (jax.tree_util.tree_unflatten(treedef, new),
                    NanAtState(state.count + 1, state.k, state.mask))

        return optax.GradientTransformation(init_fn, update_fn)

    class RecState(NamedTuple):
        pass

    def rec_update():
        """stateless identity GradientTransformation reporting (ordered) that an optimizer update took place.
        An update happens exactly once per iteration, right after that iteration's loss evaluation: the loss
        evaluations made *inside* the loop are those immediately followed by an update record, however many
        evaluations (0, 1, 2, ... or abstract ones, which report nothing) the code makes outside the loop."""

        def init_fn(params):
            return RecState()

        def update_fn(updates, state, params=None):
            jax.debug.callback(lambda z: _rec("U", z), jnp.zeros(()), ordered=True)
            return updates, state

        return optax.GradientTransformation(init_fn, update_fn)

    _CACHE["classes"] = dict(ExactLoss=ExactLoss, Scripted=Scripted, NanAtState=NanAtState, nan_at=nan_at,
                             batch_cols=batch_cols, rec_update=rec_update)
    return _CACHE["classes"]


# ------------------------------------------------------------------------------------------------
# building the real objects of a segment
# ------------------------------------------------------------------------------------------------
LEAF_ORDER_NOTE = "leaves in jax.tree_util.tree_leaves(Params) order: nn_params dict (sorted keys), eq_params dict"


def build_params(pspec):
    """pspec: {"nn": {name: [vals] | val}, "eq": {name: [vals] | val}} (strings; a bare string = scalar)"""
    import jax.numpy as jnp
    from jinns.parameters import Params

    def arr(v):
        if isinstance(v, list):
            return jnp.asarray([float("nan") if x == NAN else float("inf") if x == INF else fl(x) for x in v],
                               dtype=jnp.float64)
        return jnp.asarray(float("nan") if v == NAN else float("inf") if v == INF else fl(v), dtype=jnp.float64)

    return Params(nn_params={k: arr(v) for k, v in pspec["nn"].items()},
                  eq_params={k: arr(v) for k, v in pspec["eq"].items()})


def leaf_paths(pspec):
    return [("nn", k) for k in sorted(pspec["nn"])] + [("eq", k) for k in sorted(pspec["eq"])]


def leaf_sizes(pspec):
    return [len(pspec[g][k]) if isinstance(pspec[g][k], list) else 1 for g, k in leaf_paths(pspec)]


def theta_json(pspec):
    out = []
    for g, k in leaf_paths(pspec):
        v = pspec[g][k]
        out.append(list(v) if isinstance(v, list) else [v])
    return out


def params_to_leaves(params):
    import jax
    return [vlist(x) for x in jax.tree_util.tree_leaves(params)]


def build_tracked(pspec, track):
    """track: None (no tracking) or {"nn": None | {name: None|bool}, "eq": None | {name: None|bool}}"""
    from jinns.parameters import Params
    if track is None:
        return None
    return Params(nn_params=None if track["nn"] is None else dict(track["nn"]),
                  eq_params=None if track["eq"] is None else dict(track["eq"]))


def track_spec(pspec, track):
    """per leaf: None | True | False"""
    out = []
    for g, k in leaf_paths(pspec):
        if track is None or track[g] is None:
            out.append(None)
        else:
            out.append(track[g][k])
    return out


def build_loss(lspec, nflat, tag, record=True):
    import jax.numpy as jnp
    cl = _classes()
    coefs, struct = [], []
    for name, monos in lspec["terms"]:
        ms = []
        for c, ps, z in monos:
            ms.append((len(coefs), tuple(ps), int(z)))
            coefs.append(fl(c))
        struct.append((name, tuple(ms)))
    gmask = [float("nan") if i in lspec.get("grad_fault", []) else 1.0 for i in range(nflat)]
    mark = lspec.get("mark")
    return cl["ExactLoss"](coef=jnp.asarray(coefs, dtype=jnp.float64).reshape((len(coefs),)),
                           mark=jnp.asarray(float("nan") if mark is None else fl(mark), dtype=jnp.float64),
                           gmask=jnp.asarray(gmask, dtype=jnp.float64), struct=tuple(struct), tag=tag,
                           record=record)


def opt_key(ospec):
    return (ospec["lr0"], tuple((int(b), s) for b, s in ospec["bounds"]), ospec["momentum"],
            ospec.get("nan_at") is not None)


def build_optimizer(ospec, record=True):
    """cached per configuration: `_gradient_step` is jitted with the optimizer as a static argument.
    With `record`, the stateless recording transformation is chained last (identity on the updates)."""
    key = ("opt", bool(record)) + opt_key(ospec)
    if key in _CACHE:
        return _CACHE[key]
    import optax
    lr0 = fl(ospec["lr0"])
    if ospec["bounds"]:
        lr = optax.piecewise_constant_schedule(lr0, {int(b): fl(s) for b, s in ospec["bounds"]})
    else:
        lr = lr0
    mom = None if ospec["momentum"] is None else fl(ospec["momentum"])
    opt = optax.sgd(lr, momentum=mom)
    if ospec.get("nan_at") is not None:
        opt = optax.chain(opt, _classes()["nan_at"]())
    if record:
        opt = optax.chain(opt, _classes()["rec_update"]())
    _CACHE[key] = opt
    return opt


def has_count(ospec):
    return bool(ospec["bounds"]) or ospec.get("nan_at") is not None


def init_opt_state(ospec, params, record=True):
    """optimizer.init, then the fault step / leaf mask (data of the NaN-emitting transformation) and, for
    resumed runs described by their observation, counter and momentum trace"""
    import jax
    import jax.numpy as jnp
    cl = _classes()
    opt = build_optimizer(ospec, record)
    st = opt.init(params)

    def fix(x):
        if isinstance(x, cl["NanAtState"]):
            k, leaves = ospec["nan_at"]
            n_leaves = len(x.mask)
            return cl["NanAtState"](x.count, jnp.asarray(int(k), jnp.int32),
                                    tuple(jnp.asarray(1.0 if i in leaves else 0.0) for i in range(n_leaves)))
        return x

    st = jax.tree_util.tree_map(fix, st, is_leaf=lambda x: isinstance(x, cl["NanAtState"]))
    return st


def opt_obs(state):
    """{"count": int|None, "trace": leaves|None}: the step counters (all must agree) and the momentum trace"""
    import jax
    import numpy as np
    cl = _classes()
    counts, traces = [], []

    def walk(x):
        if isinstance(x, cl["NanAtState"]):
            counts.append(int(np.asarray(x.count)))
        elif isinstance(x, tuple) and hasattr(x, "_fields"):      # optax states are NamedTuples
            if "count" in x._fields:
                counts.append(int(np.asarray(x.count)))
            if "trace" in x._fields:
                traces.append(x.trace)
        elif isinstance(x, (tuple, list)):
            for y in x:
                walk(y)

    walk(state)
    if len(set(counts)) > 1:
        raise ValueError(f"optimizer step counters disagree: {counts}")
    return {"count": counts[0] if counts else None,
            "trace": [vlist(x) for x in jax.tree_util.tree_leaves(traces[0])] if traces else None}


def build_generators(gspec):
    """gspec: {"data": {nt, b, seed, half}, "param": None | {n, seed, keys}, "obs": None | {n, seed, vals}}
    grid points are multiples of 1/2 (`half`) or integers, so that sums and sums of squares are exact"""
    import jax
    import jax.numpy as jnp
    from jinns.data._DataGenerators import DataGeneratorODE, DataGeneratorParameter, DataGeneratorObservations
    d = gspec["data"]
    step = 0.5 if d.get("half", True) else 1.0
    data = DataGeneratorODE(jax.random.PRNGKey(d["seed"]), d["nt"], 0.0, d["nt"] * step, d["b"], method="grid")
    pdata = odata = None
    if gspec.get("param") is not None:
        p = gspec["param"]
        pdata = DataGeneratorParameter(jax.random.PRNGKey(p["seed"]), p["n"], d["b"],
                                       param_ranges={k: (0.0, p["n"] * 0.5) for k in p["keys"]}, method="grid")
    if gspec.get("obs") is not None:
        o = gspec["obs"]
        pin = jnp.arange(o["n"], dtype=jnp.float64)[:, None]
        val = jnp.asarray([float(v) for v in o["vals"]], dtype=jnp.float64)[:, None]
        kw = {"sharding_device": cpu_sharding()} if o.get("sharding_device") else {}
        odata = DataGeneratorObservations(jax.random.PRNGKey(o["seed"]), d["b"], pin, val, **kw)
    return data, pdata, odata


def fingerprint(gen):
    import jax
    import numpy as np
    out = []
    for leaf in jax.tree_util.tree_leaves(gen):
        a = np.asarray(jax.random.key_data(leaf)) if _is_key(leaf) else np.asarray(leaf)
        out.extend(qs(x) for x in a.ravel().tolist())
    return out


def _is_key(x):
    import jax
    try:
        return jax.dtypes.issubdtype(x.dtype, jax.dtypes.prng_key)
    except Exception:
        return False


def replay(data, pdata, odata, n):
    """the batch stream of the generators passed in, drawn outside the training loop:
    (batches as column lists, fingerprints of the data generator after 0..n draws)"""
    import jax
    import numpy as np
    cl = _classes()
    from jinns.data._DataGenerators import append_param_batch, append_obs_batch
    if "replay_step" not in _CACHE:
        _CACHE["replay_step"] = jax.jit(lambda g: g.get_batch())
    step = _CACHE["replay_step"]
    batches, fps = [], [fingerprint(data)]
    for _ in range(n):
        data, batch = step(data)
        if pdata is not None:
            pdata, pb = step(pdata)
            batch = append_param_batch(batch, pb)
        if odata is not None:
            odata, ob = step(odata)
            batch = append_obs_batch(batch, ob)
        batches.append([[qs(x) for x in np.asarray(c).tolist()] for c in cl["batch_cols"](batch)])
        fps.append(fingerprint(data))
    return batches, fps


def first_point(batch_cols_json):
    return batch_cols_json[0][0]


# ------------------------------------------------------------------------------------------------
# running one segment on the real jinns.solve
# ------------------------------------------------------------------------------------------------
def cpu_sharding():
    import jax
    if "sharding" not in _CACHE:
        _CACHE["sharding"] = jax.sharding.SingleDeviceSharding(jax.devices("cpu")[0])
    return _CACHE["sharding"]


def _solve_fn(n, ospec, tracked, jit, record, sharding, verbose=False):
    import jax
    import jinns
    opt = build_optimizer(ospec, record)
    # with `obs_batch_sharding` solve takes its second execution path: `get_batch_sharding` (not jitted,
    # device_put of the observation batch) and a plain Python `while break_fun(carry)` loop
    kw = {"obs_batch_sharding": cpu_sharding()} if sharding else {}

    def f(params, data, pdata, odata, loss, opt_state, val):
        return jinns.solve(n, params, data, loss, opt, opt_state=opt_state, tracked_params=tracked,
                           param_data=pdata, obs_data=odata, validation=val, verbose=verbose,
                           print_loss_every=3, **kw)

    return jax.jit(f) if jit else f


def solve_fn(n, ospec, pspec, track, jit, record=True, sharding=False, verbose=False):
    key = ("solve", n, opt_key(ospec), repr(track), jit, bool(record), bool(sharding), bool(verbose))
    if key not in _CACHE:
        _CACHE[key] = _solve_fn(n, ospec, build_tracked(pspec, track), jit, record, sharding, bool(verbose))
    return _CACHE[key]


def build_validation(vspec, nflat):
    """returns (module, replayed validation batches or None)"""
    import jax.numpy as jnp
    cl = _classes()
    if vspec is None:
        return None, None
    if vspec["kind"] == "scripted":
        sc = vspec["script"]
        return cl["Scripted"](call_every=int(vspec["call_every"]),
                              crit=jnp.asarray([fl(o[0]) for o in sc], dtype=jnp.float64),
                              imp=jnp.asarray([bool(o[1]) for o in sc]),
                              stop=jnp.asarray([bool(o[2]) for o in sc]),
                              counter=jnp.zeros((), jnp.int32)), None
    from jinns.validation._validation import ValidationLoss
    vd, vp, vo = _memo("gens", vspec["gens"], lambda: build_generators(vspec["gens"]))
    vloss = _memo("loss", [vspec["loss"], nflat, "V"], lambda: build_loss(vspec["loss"], nflat, "V"))
    mod = ValidationLoss(loss=vloss, validation_data=vd, validation_param_data=vp, validation_obs_data=vo,
                         call_every=int(vspec["call_every"]), early_stopping=bool(vspec["early"]),
                         patience=int(vspec["patience"]))
    return mod, (vd, vp, vo)


def _memo(kind, spec, build):
    """objects built from a JSON sub-specification, cached (bounded) per worker"""
    key = (kind, json.dumps(spec, sort_keys=True))
    m = _CACHE.setdefault("memo", {})
    if key not in m:
        if len(m) > 256:
            m.clear()
        m[key] = build()
    return m[key]


def run_segment(seg, objs=None):
    """runs the real jinns.solve on the segment; returns (observation dict, returned 9-tuple or None).
    `objs` (optional) overrides the objects passed in: {"params", "data", "opt_state"} for resumed runs.
    With seg["record"] = False the loss does not report its evaluations: the number of iterations run is
    then read off the history of the parameter-free loss term "probe" (= 1 on every written slot)."""
    import jax
    pspec = seg["params"]
    nflat = sum(leaf_sizes(pspec))
    n = int(seg["n"])
    objs = objs or {}
    record = bool(seg.get("record", True))
    params = objs.get("params", None)
    if params is None:
        params = _memo("params", pspec, lambda: build_params(pspec))
    data, pdata, odata = _memo("gens", seg["gens"], lambda: build_generators(seg["gens"]))
    if "data" in objs:
        data = objs["data"]
    loss = _memo("loss", [seg["loss"], nflat, record], lambda: build_loss(seg["loss"], nflat, "T", record))
    opt_state = objs.get("opt_state", None)
    if opt_state is None:
        opt_state = _memo("opt_state", [seg["opt"], pspec, record],
                          lambda: init_opt_state(seg["opt"], params, record))
    val, _ = build_validation(seg.get("val"), nflat)
    sharding = bool(seg.get("sharding", False))
    # the Python-loop path cannot be traced by an outer jit: it is always a plain call
    f = solve_fn(n, seg["opt"], pspec, seg.get("track"), bool(seg.get("jit", True)) and not sharding, record,
                 sharding, bool(seg.get("verbose", False)))
    del LOG[:]
    sink = io.StringIO()
    try:
        with contextlib.redirect_stdout(sink):
            out = f(params, data, pdata, odata, loss, opt_state, val)
            jax.block_until_ready(jax.tree_util.tree_leaves(out))
            jax.effects_barrier()
    except Exception as e:  # a rejection by jinns is an observation
        return {"error": core.err_kind(e)}, None
    log = list(LOG)
    del LOG[:]
    return observe(seg, out, log), out


def observe(seg, out, log):
    import numpy as np
    pspec = seg["params"]
    sizes = leaf_sizes(pspec)
    n = int(seg["n"])
    (p_out, loss_hist, term_hist, data_out, _loss_out, opt_out, stored, crit, best) = out
    if seg.get("record", True):
        # the in-loop loss evaluations are the loss records immediately followed by an optimizer-update
        # record (whatever number of evaluations, real or abstract, the code makes outside the loop)
        tu = [r for r in log if r[0] in ("T", "U")]
        inloop = [r for r, nxt in zip(tu, tu[1:]) if r[0] == "T" and nxt[0] == "U"]
        iters = sum(1 for r in tu if r[0] == "U")          # one optimizer update per iteration
        batches = [[[qs(x) for x in c.tolist()] for c in r[2:]] for r in inloop]
        # validation records made before the first update are not invocations of an iteration
        first_u = next((i for i, r in enumerate(log) if r[0] == "U"), len(log))
        log = [r for i, r in enumerate(log) if r[0] not in ("S", "V") or i > first_u]
    else:
        probe = [int(x) for x in np.asarray(term_hist["probe"]).tolist()]
        iters = sum(probe)
        if probe != [1] * iters + [0] * (n - iters):
            return {"error": "other:probe-term-history-not-a-prefix"}
        batches = []
    obs = {
        "iters": iters,
        "batches": batches,
        "params": params_to_leaves(p_out),
        "loss_hist": vlist(loss_hist),
        "term_hist": [[vstr(np.asarray(term_hist[name])[i]) for name, _ in seg["loss"]["terms"]] for i in range(n)],
        "opt": opt_obs(opt_out),
        "gen": fingerprint(data_out),
        "crit_hist": None if crit is None else vlist(crit),
        "best": None if best is None else params_to_leaves(best),
    }
    # tracked histories: one record per slot, tracked leaves only
    spec = track_spec(pspec, seg.get("track"))
    cols = []
    for (g, k), sp in zip(leaf_paths(pspec), spec):
        if sp is None:
            continue
        sub = stored.nn_params if g == "nn" else stored.eq_params
        arr = np.asarray(sub[k], dtype=float).reshape(n, -1)
        cols.append(arr)
    obs["tracked"] = [[[vstr(x) for x in c[i]] for c in cols] for i in range(n)]
    # structure of the untracked part
    ok = True
    tr = seg.get("track")
    if tr is None:     # tracked_params=None: every leaf of the returned container is None
        import jax
        ok = all(x is None for x in jax.tree_util.tree_leaves(stored, is_leaf=lambda x: x is None))
    else:
        for g in ("nn", "eq"):
            sub = stored.nn_params if g == "nn" else stored.eq_params
            if tr[g] is None:
                ok = ok and sub is None
            else:
                for k, sp_ in tr[g].items():
                    ok = ok and ((sub[k] is None) == (sp_ is None))
    if not ok:
        return {"error": "other:tracked-structure"}
    # validation calls
    calls = []
    vs = seg.get("val")
    if vs is not None and vs["kind"] == "scripted":
        for r in log:
            if r[0] == "S":
                calls.append({"counter": int(r[1]), "params": split_flat(r[2], sizes)})
        if [c["counter"] for c in calls] != list(range(len(calls))):
            return {"error": "other:validation-call-counter"}
    elif vs is not None:
        for r in log:
            if r[0] == "V":
                calls.append({"params": split_flat(r[1], sizes),
                              "batch": [[qs(x) for x in c.tolist()] for c in r[2:]]})
    obs["calls"] = calls
    return obs


def split_flat(flat, sizes):
    out, off = [], 0
    for s in sizes:
        out.append(vlist(flat[off:off + s]))
        off += s
    return out


# ------------------------------------------------------------------------------------------------
# model-side description
# ------------------------------------------------------------------------------------------------
def lean_loss(lspec):
    return {"terms": [[name, [[c, list(ps), int(z)] for c, ps, z in monos]] for name, monos in lspec["terms"]],
            "mark": lspec.get("mark"), "grad_fault": list(lspec.get("grad_fault", []))}


def lean_prog(seg, batches, gens, theta0=None, opt0=None, n=None, vbatches=None):
    ospec = seg["opt"]
    prog = {
        "n": int(seg["n"]) if n is None else int(n),
        "theta0": theta0 if theta0 is not None else theta_json(seg["params"]),
        "opt0": opt0 if opt0 is not None else {"count": None, "trace": None},
        "loss": lean_loss(seg["loss"]),
        "opt": {"lr0": ospec["lr0"], "bounds": [[int(b), s] for b, s in ospec["bounds"]],
                "momentum": ospec["momentum"], "nan_at": ospec.get("nan_at"), "has_count": has_count(ospec)},
        "spec": track_spec(seg["params"], seg.get("track")),
        "batches": batches,
        "gens": gens,
        "val": None,
    }
    vs = seg.get("val")
    if vs is not None and vs["kind"] == "scripted":
        prog["val"] = {"call_every": int(vs["call_every"]), "kind": "scripted",
                       "script": [[o[0], bool(o[1]), bool(o[2])] for o in vs["script"]]}
    elif vs is not None:
        prog["val"] = {"call_every": int(vs["call_every"]), "kind": "vloss", "loss": lean_loss(vs["loss"]),
                       "batches": vbatches, "patience": int(vs["patience"]), "early": bool(vs["early"])}
    return prog


def bits(s) -> int:
    """significant bits of an exact value (size of the odd part of the numerator)"""
    try:
        f = Fraction(s)
    except (ValueError, ZeroDivisionError):
        return 0
    num = abs(f.numerator)
    while num and num % 2 == 0:
        num //= 2
    return num.bit_length()


def max_bits(x) -> int:
    if isinstance(x, str):
        return bits(x)
    if isinstance(x, (list, tuple)):
        return max([max_bits(y) for y in x] + [0])
    if isinstance(x, dict):
        return max([max_bits(y) for y in x.values()] + [0])
    return 0


# ------------------------------------------------------------------------------------------------
# random exact programs
# ------------------------------------------------------------------------------------------------
def dy(rng, lo, hi, den):
    v = Fraction(rng.randint(lo * den, hi * den), den)
    return str(v.numerator) if v.denominator == 1 else f"{v.numerator}/{v.denominator}"


PSHAPES = [
    {"nn": {"w": 2}, "eq": {"nu": 0}},
    {"nn": {"b": 0, "w": 2}, "eq": {"nu": 0}},
    {"nn": {"w": 1}, "eq": {"mu": 2, "nu": 0}},
]


def random_params(rng, shape):
    def val(sz):
        if sz == 0:
            return dy(rng, -3, 3, 2)
        return [dy(rng, -3, 3, 2) for _ in range(sz)]
    return {g: {k: val(sz) for k, sz in shape[g].items()} for g in ("nn", "eq")}


def n_features(gspec):
    ncols = 1 + (len(gspec["param"]["keys"]) if gspec.get("param") else 0) + (2 if gspec.get("obs") else 0)
    return 2 + 2 * ncols          # z0, (sum, sumsq) per column, fault feature


def random_loss(rng, nflat, gspec, bilinear=False, nterms=None):
    nz = n_features(gspec)
    zfault = nz - 1
    names = ["dyn_loss", "initial_condition", "observations"]
    nterms = nterms or rng.randint(1, 3)
    terms = []
    for j in range(nterms):
        monos = []
        for _ in range(rng.randint(1, 3)):
            c = str(rng.choice([-2, -1, 1, 2]))
            if bilinear and rng.random() < 0.5:
                ps = [rng.randrange(nflat), rng.randrange(nflat)]
                z = rng.choice([0, 1])
            else:
                ps = [rng.randrange(nflat)]
                z = rng.randrange(0, zfault)
            monos.append([c, ps, z])
        if rng.random() < 0.3:
            monos.append([str(rng.choice([-1, 1])), [], rng.randrange(0, zfault)])   # parameter-free part
        terms.append([names[j], monos])
    return {"terms": terms, "mark": None, "grad_fault": []}


def random_gens(rng, with_aux=True, bmax=4):
    b = rng.choice([1, 2, 3, 4][:bmax])
    nt = rng.choice([x for x in (2, 3, 4, 5, 6, 8) if x >= b])
    g = {"data": {"nt": nt, "b": b, "seed": rng.randrange(1 << 30), "half": rng.random() < 0.7},
         "param": None, "obs": None}
    if with_aux and rng.random() < 0.4:
        g["param"] = {"n": rng.choice([x for x in (2, 3, 4, 6, 8) if x >= b]), "seed": rng.randrange(1 << 30),
                      "keys": ["nu"]}
    if with_aux and rng.random() < 0.4:
        no = rng.choice([x for x in (2, 3, 4, 5, 8) if x >= b])
        g["obs"] = {"n": no, "seed": rng.randrange(1 << 30), "vals": [rng.randint(-3, 3) for _ in range(no)]}
    return g


def random_opt(rng, kind=None):
    kind = kind or rng.choice(["sgd", "sgd", "momentum", "schedule", "momentum+schedule"])
    o = {"lr0": rng.choice(["1/2", "1/4", "1/8"]), "bounds": [], "momentum": None, "nan_at": None, "kind": kind}
    if "momentum" in kind:
        o["momentum"] = rng.choice(["1/2", "1/4"])
    if "schedule" in kind:
        b1 = rng.randint(1, 5)
        o["bounds"] = [[b1, "1/2"]] + ([[b1 + rng.randint(1, 6), rng.choice(["1/2", "2"])]] if rng.random() < 0.5 else [])
    return o


def random_track(rng, shape):
    r = rng.random()
    if r < 0.15:
        return None
    if r < 0.35:
        return {"nn": None, "eq": {k: True for k in shape["eq"]}}
    if r < 0.5:
        return {"nn": {k: True for k in shape["nn"]}, "eq": None}
    def one():
        x = rng.random()
        return True if x < 0.6 else (None if x < 0.9 else False)
    return {"nn": {k: one() for k in shape["nn"]}, "eq": {k: one() for k in shape["eq"]}}


def full_track(shape):
    return {"nn": {k: True for k in shape["nn"]}, "eq": {k: True for k in shape["eq"]}}
