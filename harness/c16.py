"""
C16 — residual-adaptive refinement follows its schedule and never exceeds capacity.
Correspondence: real `init_rar` + `trigger_rar` driven iteration by iteration and the real `jinns.solve`,
on DataGeneratorODE / CubicMeshPDEStatio / CubicMeshPDENonStatio, against JinnsModel/RarSchedule.lean.
"""
from __future__ import annotations

import itertools

from harness import rarlib

PROP = "C16"
LEVEL_TEXT = ("Lean 4 theorems, for every start iteration, period >= 1, allocation sizes n_start <= n and nt_start <= nt "
              "(equal or not), selected sizes >= 1, generator kind (ODE / stationary / non-stationary) and every number "
              "of iterations: no refinement step before start; iteration i steps iff i = start + k*every with "
              "k < capacity = min over the owned stores of floor((n - n_start)/selected); after J steps exactly "
              "nt_start + J*selected_t time probabilities and n_start + J*selected_x space probabilities are non-zero "
              "(a prefix), independently; the active count never exceeds the store; once a full set no longer fits no "
              "step ever happens again and counters and probabilities are frozen.  The model is tied to /repo on every "
              "run by exact differential execution of init_rar/trigger_rar and of jinns.solve, and Holds.C16 is "
              "evaluated on the implementation's own runs.")
LEVEL_NOTE = ("Trusted: Lean kernel + {propext, Classical.choice, Quot.sound}; the hand-written schedule model's tie to "
              "the code is differential (sees the generated schedules / sizes); only the zero/non-zero pattern of the "
              "probabilities is modelled; lax.cond / fori_loop / dynamic_update_slice are modelled as if / fold / "
              "clamped update; in jinns.solve the iteration of a step is observed through an ordered debug callback "
              "placed in the optimizer, interleaved with the guarded hook of rar_step_true.")
TECHNIQUE = ("Lean 4 proof (induction on the iteration count with an invariant linking the period counter to "
             "(i - start) mod every and the step count to a closed form) + differential correspondence")
THEOREMS = [
    "Jinns.Rar.maskStep_prefix",
    "Jinns.Rar.active_prefixMask",
    "Jinns.Rar.proceed_iff",
    "Jinns.Rar.fits_iff_lt_cap",
    "Jinns.Rar.proceed_char",
    "Jinns.Rar.inv_init",
    "Jinns.Rar.inv_trigger",
    "Jinns.Rar.inv_run",
    "Jinns.Rar.no_step_before_start",
    "Jinns.Rar.stepsAt_iff",
    "Jinns.Rar.steps_closed_form",
    "Jinns.Rar.steps_le_cap",
    "Jinns.Rar.active_counts",
    "Jinns.Rar.active_le_store",
    "Jinns.Rar.exhausted_forever",
    "Jinns.Rar.model_trace_holds",
    "Jinns.Rar.legal_wf",
    "Jinns.Rar.c16StepCounts_of_step",
    "Jinns.Rar.c16ScanCounts_of_scan",
    "Jinns.Rar.holdsC16Resumed_of_holds",
    "Jinns.Rar.maskOK_trigger",
    "Jinns.Rar.holdsC16Resumed_model",
    "Jinns.Rar.resumed_after_run",
    "Jinns.Rar.resumed_chain",
    "Jinns.Rar.resumed_steps_bounds",
    "Jinns.Rar.resumed_active_counts",
]
LEAN_MODULES = ["JinnsProofs.C16", "JinnsProofs.C16Resumed"]
RULE = ("cases = (generator kind, allocation sizes, selected/sample sizes, batch sizes, start, every, number of "
        "iterations, mode trigger|solve); per iteration: whether the hook of rar_step_true fired, rar_iter_nb, "
        "rar_iter_from_last_sampling and the non-zero patterns of p_times / p_omega (in solve mode only after the last "
        "iteration); non-trivial = at least one refinement step is observed and the run continues at least one full "
        "period after the last step the capacity allows or after the second step; distinct = distinct case dicts")
ASSUMPTIONS = [
    "a refinement step is observed as a record of the guarded hook of rar_step_true (JINNS_VERIF=1)",
    "in jinns.solve the iteration index of a step is the number of optimizer updates that preceded it minus one "
    "(ordered debug callbacks keep program order)",
    "legal configurations (Holds.legalCfg: update_every >= 1, 1 <= n_start <= n, 1 <= selected <= sample size and "
    "<= n, 1 <= batch <= n, n_start given) must run: their rejection at construction or trace time is the Holds "
    "clause valid-configuration-rejected; legal_wf: every legal configuration is within the theorems' hypotheses",
]
EXHAUSTIVE = {"quick": False, "thorough": True}

# static configurations: kind, dim, (nt, ntStart, selT, sampT, bT), (n, nStart, selX, sampX, bX)
_ODE = [
    (8, 2, 2, 4, 2),   # capacity 3
    (6, 6, 1, 3, 2),   # capacity 0 (full from the start)
    (7, 3, 3, 5, 1),   # capacity 1, one slot never used
    (9, 1, 2, 6, 1),   # capacity 4
    (5, 4, 2, 3, 2),   # capacity 0 with a free slot
]
_STATIO = [
    (2, (8, 3, 2, 5, 1)),   # capacity 2
    (2, (6, 2, 1, 4, 2)),   # capacity 4
    (2, (4, 4, 2, 3, 2)),   # capacity 0
    (2, (7, 2, 3, 4, 2)),   # capacity 1
    (1, (7, 2, 3, 4, 2)),   # 1-D space domain, capacity 1
    (1, (9, 3, 2, 3, 1)),   # 1-D space domain, capacity 3
]
_NONSTATIO = [
    (2, (6, 2, 1, 3, 2), (8, 3, 2, 4, 2)),   # time 4, space 2 -> 2
    (2, (5, 3, 2, 3, 1), (9, 1, 2, 4, 1)),   # time 1, space 4 -> 1
    (2, (8, 2, 2, 3, 2), (8, 2, 2, 3, 2)),   # equal counts -> 3
    (2, (4, 4, 1, 2, 2), (6, 2, 1, 2, 2)),   # time full -> 0
    (2, (7, 1, 3, 4, 1), (6, 3, 1, 3, 1)),   # selT > selX: time 2, space 3 -> 2
    (2, (9, 1, 2, 3, 1), (9, 1, 2, 3, 1)),   # -> 4
    # initial counts far apart, both ways, at least 4 steps: a mask / offset written with the other
    # store's initial count shows only in the early steps (it heals once n_start + J*sel passes it)
    (2, (16, 8, 1, 3, 2), (12, 2, 2, 4, 2)),     # nt_start = n_start + 3*sel_x; time 8, space 5 -> 5
    (2, (14, 2, 2, 3, 2), (20, 11, 2, 4, 1)),    # n_start = nt_start + 4.5*sel_t; time 6, space 4 -> 4
    (2, (20, 10, 2, 4, 2), (10, 1, 1, 3, 1)),    # nt_start = n_start + 9*sel_x; time 5, space 9 -> 5
    (1, (12, 1, 1, 2, 1), (18, 7, 2, 3, 2)),     # 1-D, n_start = nt_start + 6*sel_t; time 11, space 5 -> 5
    (1, (8, 2, 2, 3, 2), (8, 3, 2, 3, 2)),   # 1-D space domain: time 3, space 2 -> 2
    (1, (6, 2, 1, 3, 1), (7, 1, 3, 4, 1)),   # 1-D space domain: time 4, space 2 -> 2
]


def _base(rng, kind, dim, T, X, mode):
    nt, ntStart, selT, sampT, bT = T if T else (0, 0, 0, 0, 0)
    n, nStart, selX, sampX, bX = X if X else (0, 0, 0, 0, 0)
    case = {"kind": kind, "mode": mode, "dim": dim if X else 0,
            "nt": nt, "ntStart": ntStart, "selT": selT, "sampT": sampT, "bT": bT,
            "n": n, "nStart": nStart, "selX": selX, "sampX": sampX, "bX": bX,
            "Q": 64, "tmin": -1, "tmax": 2, "xmin": [-2, 0][:dim if X else 0], "xmax": [1, 2][:dim if X else 0],
            "a0": rarlib.core.qstr(rarlib.Fraction(rng.randint(-8, 8), 4)), "seed": rng.randrange(1 << 30)}
    if case["seed"] % 2 == 0:
        # a time interval away from 0 (candidates drawn as tmin + U(0, tmax) would leave it)
        case["tmin"], case["tmax"] = 1, 3
    case["poly"] = rarlib.random_landscape(rng, rarlib.nvars_of(case)).to_json()
    return case


def _with_schedule(case, start, every, extra=2, stop_after=None):
    """stop_after = k: the run ends right after the k-th refinement step (jinns.solve shows its generator only
    at the end: early stops are the way to see the probabilities after the first steps)"""
    c = dict(case)
    c["start"], c["every"] = start, every
    cap = rarlib.cap_of(c)
    n_iter = start + every * (cap + 1) + extra
    if stop_after is not None:
        n_iter = start + every * (min(stop_after, cap) - 1) + 1 if cap > 0 else start + 1
    if c["mode"] == "trigger":
        c["ops"] = [op for i in range(n_iter) for op in (["draw"], ["trigger", i, c["a0"]])]
    else:
        c["n_iter"] = n_iter
    return c


def _statics(kinds=("ode", "statio", "nonstatio")):
    out = []
    for T in _ODE:
        out.append(("ode", 0, T, None))
    for dim, X in _STATIO:
        out.append(("statio", dim, None, X))
    for dim, T, X in _NONSTATIO:
        out.append(("nonstatio", dim, T, X))
    return [s for s in out if s[0] in kinds]


def _random_static(rng, kind):
    def store():
        n = rng.randint(3, 10)
        n_start = rng.randint(1, n)
        sel = rng.randint(1, 3)
        samp = rng.randint(sel, sel + 3)
        b = rng.choice([1, 2]) if n_start >= 2 else 1
        return (n, n_start, sel, samp, b)
    dim = 2
    T = store() if rarlib.has_t(kind) else None
    X = store() if rarlib.has_x(kind) else None
    return (kind, dim if X else 0, T, X)


def gen_cases(rng, tier):
    cases = []
    all_sched = list(itertools.product(range(0, 6), range(1, 5)))
    if tier == "quick":
        trig_statics = [("ode", 0, _ODE[0], None), ("ode", 0, _ODE[2], None), ("ode", 0, _ODE[3], None),
                        ("nonstatio", 2, _NONSTATIO[2][1], _NONSTATIO[2][2]),
                        ("statio", 2, None, _STATIO[0][1]), ("statio", 2, None, _STATIO[3][1]),
                        ("nonstatio", 2, _NONSTATIO[0][1], _NONSTATIO[0][2]),
                        ("nonstatio", 2, _NONSTATIO[4][1], _NONSTATIO[4][2]),
                        ("nonstatio", 2, _NONSTATIO[3][1], _NONSTATIO[3][2]),
                        ("statio", 1, None, _STATIO[4][1]),
                        ("nonstatio", 2, _NONSTATIO[6][1], _NONSTATIO[6][2]),
                        ("nonstatio", 2, _NONSTATIO[7][1], _NONSTATIO[7][2]),
                        ("nonstatio", 1, _NONSTATIO[10][1], _NONSTATIO[10][2])]
        for kind, dim, T, X in trig_statics:
            base = _base(rng, kind, dim, T, X, "trigger")
            scheds = [(0, 1), (2, 3)] + rng.sample(all_sched, 6)
            for s, e in dict.fromkeys(scheds):
                cases.append(_with_schedule(base, s, e))
        solve_statics = [("ode", 0, _ODE[0], None), ("statio", 2, None, _STATIO[0][1]),
                         ("nonstatio", 2, _NONSTATIO[0][1], _NONSTATIO[0][2]),
                         ("nonstatio", 1, _NONSTATIO[10][1], _NONSTATIO[10][2])]
        for kind, dim, T, X in solve_statics:
            base = _base(rng, kind, dim, T, X, "solve")
            for s, e in dict.fromkeys([(0, 1)] + rng.sample(all_sched, 2)):
                cases.append(_with_schedule(base, s, e))
        for T, X in ((_NONSTATIO[6][1], _NONSTATIO[6][2]), (_NONSTATIO[7][1], _NONSTATIO[7][2])):
            base = _base(rng, "nonstatio", 2, T, X, "solve")
            s, e = rng.choice(all_sched)
            cases.append(_with_schedule(base, s, e, stop_after=rng.choice([1, 2])))
    else:
        for kind, dim, T, X in _statics():
            base = _base(rng, kind, dim, T, X, "trigger")
            for s, e in all_sched:
                cases.append(_with_schedule(base, s, e))
        for kind in ("ode", "statio", "nonstatio"):
            for _ in range(4):
                kind_, dim, T, X = _random_static(rng, kind)
                base = _base(rng, kind_, dim, T, X, "trigger")
                for s, e in rng.sample(all_sched, 8):
                    cases.append(_with_schedule(base, s, e))
        solve_statics = [("ode", 0, _ODE[0], None), ("ode", 0, _ODE[2], None),
                         ("statio", 2, None, _STATIO[0][1]), ("statio", 2, None, _STATIO[3][1]),
                         ("nonstatio", 2, _NONSTATIO[0][1], _NONSTATIO[0][2]),
                         ("nonstatio", 2, _NONSTATIO[4][1], _NONSTATIO[4][2]),
                         ("statio", 1, None, _STATIO[5][1])]
        for kind, dim, T, X in solve_statics:
            base = _base(rng, kind, dim, T, X, "solve")
            for s, e in all_sched:
                cases.append(_with_schedule(base, s, e, extra=1))
        for dim, T, X in _NONSTATIO[6:10]:
            base = _base(rng, "nonstatio", dim, T, X, "solve")
            for k in (1, 2, 3):
                for s, e in rng.sample(all_sched, 3):
                    cases.append(_with_schedule(base, s, e, stop_after=k))
    # resumed runs: a second `init_rar` (what a second `jinns.solve` on the returned generator does) after k1
    # iterations, the iteration number restarting at 0: the counting clauses go on (`Holds.C16Resumed`)
    res_statics = [("ode", 0, _ODE[0], None), ("ode", 0, _ODE[3], None), ("statio", 2, None, _STATIO[1][1]),
                   ("nonstatio", 2, _NONSTATIO[0][1], _NONSTATIO[0][2]), ("nonstatio", 2, _NONSTATIO[5][1], _NONSTATIO[5][2])]
    if tier == "quick":
        res_statics = [res_statics[0], rng.choice(res_statics[1:3]), rng.choice(res_statics[3:])]
    for kind, dim, T, X in res_statics:
        base = _base(rng, kind, dim, T, X, "trigger")
        for s, e in ([(0, 1), (1, 2)] if tier == "quick" else [(0, 1), (1, 1), (1, 2), (2, 2), (0, 3)]):
            c = _with_schedule(base, s, e)
            k1 = s + e + 1                      # at least one step (when the capacity allows) before the second init
            trig = [op for op in c["ops"] if op[0] == "trigger"]
            ops = []
            for k in range(k1):
                ops += [["draw"], ["trigger", k, c["a0"]]]
            ops.append(["reinit"])
            for k in range(max(2, len(trig) - k1)):
                ops += [["draw"], ["trigger", k, c["a0"]]]
            c["ops"] = ops
            c["reinit_after"] = k1
            cases.append(c)
    # a rejected configuration: rar_parameters without the initial count
    bad = _with_schedule(_base(rng, "ode", 0, _ODE[0], None, "trigger"), 1, 2)
    bad["ntStart_arg"] = None
    bad["expect_error"] = "value_error"   # (documentation only: the Lean side decides legality)
    cases.append(bad)
    return cases


def shrink_candidates(case):
    if case["mode"] == "trigger":
        n = len(case["ops"]) // 2
        for m in sorted({n // 2, n - 1}):
            if 1 <= m < n:
                yield {**case, "ops": case["ops"][: 2 * m]}
    else:
        n = case["n_iter"]
        for m in sorted({n // 2, n - 1}):
            if 1 <= m < n:
                yield {**case, "n_iter": m}
    for k, lo in (("start", 0), ("every", 1)):
        v = case[k]
        for nv in sorted({v // 2, v - 1}):
            if lo <= nv < v:
                yield {**case, k: nv}


def run_impl(case):
    return rarlib.run(case)


def iteration_records(case, obs):
    """one record per iteration, as Holds.C16 wants them"""
    kind = case["kind"]
    recs = []
    trig = [e for e in obs["events"] if e["ev"] == "trigger"]
    if case["mode"] == "trigger":
        for e in trig:
            r = {"stepped": e["stepped"], "iterNb": e["iterNb"], "fromLast": e["fromLast"]}
            if rarlib.has_t(kind):
                r["pT"] = e["pT"]
            if rarlib.has_x(kind):
                r["pX"] = e["pX"]
            recs.append(r)
    else:
        nb = 0
        for e in trig:
            if e["stepped"]:
                nb = e["hook_iter_nb"] + e["n_hook_records"]
            recs.append({"stepped": e["stepped"], "iterNb": nb})
        if recs:
            f = obs["final"]
            recs[-1]["iterNb"] = f["iterNb"]
            recs[-1]["fromLast"] = f["fromLast"]
            if rarlib.has_t(kind):
                recs[-1]["pT"] = f["pT"]
            if rarlib.has_x(kind):
                recs[-1]["pX"] = f["pX"]
    return recs


def lean_request(case, obs):
    req = {"op": "c16", "cfg": rarlib.cfg_json(case), "sizes": rarlib.sizes_json(case)}
    if "error" in obs:
        return {**req, "rejected": obs["error"], "trace": []}
    recs = iteration_records(case, obs)
    k1 = case.get("reinit_after")
    if k1 is None:
        return {**req, "trace": recs}
    J0 = recs[k1 - 1]["iterNb"] if k1 >= 1 else 0
    return [{**req, "trace": recs[:k1]},
            {"op": "c16resumed", "cfg": rarlib.cfg_json(case), "J0": J0, "trace": recs[k1:]}]


def judge(case, obs, answer):
    if isinstance(answer, list):
        v = judge({k: x for k, x in case.items() if k != "reinit_after"}, obs, answer[0])
        if v["status"] != "ok":
            return v
        if not answer[1]["holds"]:
            return {"status": "violation", "clause": answer[1]["clause"] + "@resumed-run"}
        return v
    if "error" in obs:
        # Holds.C16: a legal configuration must not be rejected (constructor or trace time)
        if not answer["holds"]:
            return {"status": "violation", "clause": answer["clause"], "error": obs["error"],
                    "message": obs.get("message")}
        return {"status": "ok", "clause": None}
    if not answer["legal"]:
        return {"status": "disagree", "clause": "accepted-although-the-model-rejects"}
    if not answer["holds"]:
        return {"status": "violation", "clause": answer["clause"]}
    if any(e.get("n_hook_records", 0) > 1 for e in obs["events"]):
        return {"status": "violation", "clause": "step-count"}
    if case["mode"] == "solve" and obs["n_ticks"] != case["n_iter"]:
        return {"status": "disagree", "clause": "solve-ran-another-number-of-iterations"}
    if not answer["agree"]:
        return {"status": "disagree", "clause": "model-trace-differs", "iteration": answer["first_disagreement"],
                "model": answer["model"][answer["first_disagreement"]]}
    if not answer["model_holds"]:
        return {"status": "disagree", "clause": "model-trace-violates-Holds"}
    return {"status": "ok", "clause": None}


def _steps(obs):
    return [e["i"] for e in obs.get("events", []) if e["ev"] == "trigger" and e["stepped"]]


def nontrivial(case, obs):
    if "error" in obs:
        return False
    st = _steps(obs)
    n_iter = len([e for e in obs["events"] if e["ev"] == "trigger"])
    return len(st) >= 1 and n_iter > st[-1] + case["every"]


def tags(case, obs):
    if case.get("reinit_after") is not None:
        return _tags(case, obs) + ["second_init_rar(resumed run)"]
    return _tags(case, obs)


def _tags(case, obs):
    if "error" in obs:
        return ["rejected:" + obs["error"]]
    cap = rarlib.cap_of(case)
    st = _steps(obs)
    out = [f"kind={case['kind']}", f"mode={case['mode']}", f"dim={case['dim']}", f"capacity={cap}", f"steps={len(st)}",
           f"start={case['start']}", f"every={case['every']}"]
    if len(st) == cap:
        out.append("capacity-exhausted")
    if case["kind"] == "nonstatio":
        out.append("nt_start==n_start" if case["ntStart"] == case["nStart"] else "nt_start!=n_start")
    return out


def widen(rng, bad_cases):
    out = []
    for c in bad_cases:
        if c.get("expect_error"):
            continue
        for s, e in itertools.product(range(0, 6), range(1, 5)):
            out.append(_with_schedule({k: v for k, v in c.items() if k not in ("ops", "n_iter")}, s, e))
    return out
