"""
C13 — a system loss is the weighted composition of its equations and unknowns.

Correspondence: real `SystemLossODE` / `SystemLossPDE` (E, U in {1,2,3}, ODE / stationary / non-stationary,
scalar / dictionary / missing weights, malformed weight specifications, per-unknown initial / boundary /
normalisation / observation specifications, residuals asymmetric in t and x) against
(a) the Lean model `JinnsModel/SystemLoss.lean`, (b) the *real single losses* of every unknown on the same
data (unit weights, no dynamic part), (c) for E = U = 1 the *real plain loss* with the same weights.
`Holds.C13` is evaluated on the implementation's own outputs.  The problem builder is shared with C12
(`harness/c12.py`): polynomial networks / equations, exact composite functions built with `polynet.P`.
"""
from __future__ import annotations

from fractions import Fraction

from harness import c12
from harness.c12 import q, half

PROP = "C13"
LEVEL_TEXT = ("Lean 4 theorems, for every number of equations and of unknowns (independent), key names, weight "
              "specifications, batches and all user functions: set_loss_weights broadcasts a scalar over the equations "
              "(dyn_loss) resp. the unknowns (other terms), honours a dictionary exactly when its keys are the right key "
              "set, maps a missing weight to 0 and rejects vectorial values; a scalar equals the dictionary holding it "
              "everywhere; the dynamic term is sum_e w_e * mean_i |r_e(t_i, x_i, nets, params_i)|^2 with the residual "
              "applied to the collocation row in the order (t, x); every other term is sum_k w_{term,k} * term_k with "
              "term_k the single-loss term of unknown k; total = sum of the terms; a one-equation one-unknown system "
              "equals the plain loss (Holds.C13 is true of the model).  The model is tied to /repo on every run by exact "
              "differential execution of the real system losses, the real single losses and the real plain loss.")
LEVEL_NOTE = ("Trusted: Lean kernel + {propext, Classical.choice, Quot.sound}; the hand-written model's tie to the code "
              "is differential (sees E, U <= 3, dims <= 2, polynomial user functions, Dirichlet boundary conditions); "
              "jax pytree transposition / tree_map are modelled as sums over association lists, not verified; the "
              "argument order (t, x) is observed through residuals with different coefficients on t and x; "
              "SPINNs, and per-unknown nested eq_params dictionaries together with a "
              "parameter batch are outside the generated scope.")
TECHNIQUE = ("Lean 4 proof (closed forms by induction over the lists of equations / unknowns, algebra over Q) + exact "
             "differential correspondence against the real system, single and plain losses")
THEOREMS = [
    "Jinns.SystemLoss.setOne_scalar_eq_dict",
    "Jinns.SystemLoss.setOne_none_eq_zero",
    "Jinns.SystemLoss.setOne_dict_accepts_iff",
    "Jinns.SystemLoss.setOne_vector_rejected",
    "Jinns.SystemLoss.weightOf_setOne",
    "Jinns.Holds.sysDyn_spec",
    "Jinns.Holds.sysDyn_time_column",
    "Jinns.Holds.consSum_spec",
    "Jinns.Holds.sysEvaluate_spec",
    "Jinns.Holds.sysEvaluate_total",
    "Jinns.Holds.sysEvaluate_rejects_malformed",
    "Jinns.SystemLoss.sysEvaluate_scalar_eq_dict",
    "Jinns.Holds.sys_one_one_eq_plain",
    "Jinns.Holds.holdsC13_model",
    "Jinns.Holds.holdsC12Sys_model",
]
LEAN_MODULES = ["JinnsProofs.C13"]
RULE = ("cases = (ODE / stationary / non-stationary, E, U, dims, weight specification per term, per-unknown "
        "specifications, optional parameter batch, seed); observable = (total, terms) of the real system loss, the "
        "terms of the real single loss of every unknown, the (total, terms) of the real plain loss when E = U = 1, or "
        "the rejection; non-trivial = the system is accepted, has a non-zero dynamic term and at least one non-zero "
        "constraint term, and (E, U) != (1, 1) or the plain loss was compared; distinct = distinct case dicts")
ASSUMPTIONS = list(c12.ASSUMPTIONS)
EXHAUSTIVE = {"quick": False, "thorough": False}

FIELDS_ODE = ["dyn_loss", "initial_condition", "observations"]
FIELDS_PDE = ["dyn_loss", "norm_loss", "boundary_loss", "observations", "initial_condition"]


def _names(case):
    U, E = case["U"], case["E"]
    us = [f"u{i}" for i in range(U)]
    es = [f"e{i}" for i in range(E)]
    if case.get("same_names"):
        es = us[:E] + [f"e{i}" for i in range(U, E)]
    return es, us


def _weight_spec(rng, field, es, us, mode):
    ks = es if field == "dyn_loss" else us
    if mode == "scalar":
        return q(half(rng, 0, 2) + Fraction(1, 2))
    if mode == "none":
        return None
    if mode == "dict":
        # distinct values, and an insertion order that is a random permutation of the loss's own dict order
        # (set_loss_weights keeps the user's dict as is: pairing must be by key, never by position)
        vals = rng.sample([Fraction(x, 2) for x in range(1, 8)], len(ks))
        order = list(ks)
        rng.shuffle(order)
        return {"dict": {k: q(vals[ks.index(k)]) for k in order}}
    if mode == "dict_missing":
        return {"dict": {k: "1" for k in ks[:-1]}} if len(ks) > 1 else {"dict": {"zz": "1"}}
    if mode == "dict_extra":
        return {"dict": {**{k: "1" for k in ks}, "zz": "2"}}
    if mode == "dict_other_keys":
        other = us if field == "dyn_loss" else es
        return {"dict": {k: "1" for k in other}}
    if mode == "vector":
        return "vector"
    if mode == "dict_vector":
        return {"dict_vector": list(ks)}
    raise ValueError(mode)


def gen_cases(rng, tier):
    cases = []
    quick = tier == "quick"
    kinds = ["sys_ode", "sys_statio", "sys_nonstatio"]

    def add(**kw):
        kw.setdefault("seed", rng.randrange(1 << 30))
        # scalar weights as python numbers or as 0-d arrays (not for the malformed-weight stream)
        kw.setdefault("w0d", (not kw.get("bad_field")) and len(cases) % 2 == 1)
        cases.append(c12.settle_seed(kw))

    def base_case(kind, E, U, force=None):
        """force: {"obs": bool, "batched": bool, "het": bool, "m": int} -- features fixed instead of drawn"""
        force = force or {}
        base = kind.replace("sys_", "")
        nk = rng.choice([1, 2])
        keys = [{"name": n, "shape": rng.choice(["()", "(1,)", "(k,)"]), "k": 2} for n in c12.KEY_POOL[:nk]]
        c = dict(kind=kind, d=rng.choice([1, 2]), m=force.get("m", rng.choice([1, 2])), keys=keys,
                 batched=None, B=rng.choice([2, 4]), obs=None, het=None, malformed=None, E=E, U=U,
                 same_names=rng.random() < 0.25,
                 terms={"dyn": True, "ic": base != "statio", "boundary": base != "ode", "norm": base != "ode"})
        # per-unknown specifications: each unknown has its own functions; some have no condition at all
        pu = {}
        for i in range(U):
            spec = {}
            for t in ("ic", "boundary", "norm"):
                if c["terms"][t] and rng.random() < 0.3:
                    spec[t] = False
            # the component a boundary condition applies to differs between unknowns
            spec["bdim"] = rng.choice([None, 0, 1])
            spec["bc"] = rng.choice(["dirichlet", "dirichlet", "neumann", "per_facet"])
            pu[f"u{i}"] = spec
        c["per_unknown"] = pu
        if force.get("obs", rng.random() < 0.7):
            who = [f"u{i}" for i in range(U) if rng.random() < 0.7] or ["u0"]
            c["obs"] = {"eq_keys": [], "slice": False, "unknowns": who}
        if force.get("batched", rng.random() < 0.25):
            names = [k["name"] for k in keys]
            c["batched"] = rng.sample(names, rng.randint(1, len(names)))
        if force.get("het", rng.random() < 0.3):
            # a heterogeneous parameter inside the equations of a system (the decorator around `equation`)
            c["het"] = {keys[0]["name"]: "fn"}
        # dynamic_loss_dict / u_dict (and every per-unknown dict) are built in a non-sorted key order
        c["eq_order"] = rng.sample(range(E), E)
        c["u_order"] = rng.sample(range(U), U)
        if c["obs"] is not None and c["m"] == 2 and (force.get("slices") or rng.random() < 0.75):
            # user-given obs_slice_dict: channel slices of equal width that DIFFER between unknowns; an unknown that
            # is not the last one of u_dict has observations and a slice different from the last one's
            ordered = [f"u{i}" for i in c["u_order"]]
            sl = {u: rng.choice([0, 1]) for u in ordered}
            if U >= 2:
                first_obs = next((u for u in ordered[:-1] if u in c["obs"]["unknowns"]), None)
                if first_obs is None:
                    first_obs = ordered[0]
                    c["obs"]["unknowns"] = sorted(set(c["obs"]["unknowns"]) | {first_obs})
                sl[first_obs] = 1 - sl[ordered[-1]]
            c["obs"]["slices"] = sl
        return c

    fields_of = lambda kind: FIELDS_ODE if kind == "sys_ode" else FIELDS_PDE
    # (1) all (E, U) combinations x kinds, well-formed weights of every form
    reps = 2 if quick else 14
    for kind in kinds:
        for E in (1, 2, 3):
            for U in (1, 2, 3):
                for _ in range(reps):
                    c = base_case(kind, E, U)
                    es, us = _names(c)
                    style = rng.choice(["scalar", "dict", "mixed", "mixed"])
                    w = {}
                    for f in fields_of(kind):
                        mode = style if style in ("scalar", "dict") else rng.choice(["scalar", "dict", "none"])
                        w[f] = _weight_spec(rng, f, es, us, mode)
                    c["weights"] = w
                    add(**c)
    # (1b) every combination of the optional features, for every kind, whatever the seed: parameter batch with and
    # without observations, observations through per-unknown slices that differ (two-output networks, >= 2 unknowns),
    # heterogeneous parameter with and without a parameter batch
    combos = [{"obs": False, "batched": True}, {"obs": True, "batched": True}, {"obs": True, "batched": False, "m": 2, "slices": True},
              {"obs": False, "batched": False, "het": True}, {"obs": True, "batched": True, "het": True, "m": 2, "slices": True}]
    for kind in kinds:
        for force in combos:
            for (E, U) in ([(2, 2)] if quick else [(1, 1), (2, 2), (1, 3), (3, 2)]):
                c = base_case(kind, E, U, force)
                es, us = _names(c)
                c["weights"] = {f: _weight_spec(rng, f, es, us, rng.choice(["scalar", "dict"])) for f in fields_of(kind)}
                add(**c)
    # (2) one-equation one-unknown systems against the plain loss, scalar / dict / missing weights
    for kind in kinds:
        for style in (["scalar", "dict"] if quick else ["scalar", "dict", "mixed"] * 4):
            c = base_case(kind, 1, 1)
            es, us = _names(c)
            w = {}
            for f in fields_of(kind):
                mode = style if style != "mixed" else rng.choice(["scalar", "dict", "none"])
                w[f] = _weight_spec(rng, f, es, us, mode)
            c["weights"] = w
            add(**c)
    # (3) malformed weight specifications must be rejected
    bad_modes = ["dict_missing", "dict_extra", "dict_other_keys", "vector", "dict_vector"]
    for kind in kinds:
        n = 4 if quick else 20
        for _ in range(n):
            E, U = rng.choice([1, 2, 3]), rng.choice([1, 2, 3])
            c = base_case(kind, E, U)
            c["same_names"] = False
            es, us = _names(c)
            w = {f: _weight_spec(rng, f, es, us, "scalar") for f in fields_of(kind)}
            f = rng.choice(fields_of(kind))
            mode = rng.choice(bad_modes)
            w[f] = _weight_spec(rng, f, es, us, mode)
            c["weights"] = w
            c["bad_field"] = f
            add(**c)
    return cases


def _shrink(case):
    c = dict(case)
    for k in ("E", "U"):
        if case[k] > 1:
            cc = {**c, k: case[k] - 1}
            es, us = _names(cc)
            w = {}
            for f, v in case["weights"].items():
                ks = es if f == "dyn_loss" else us
                if isinstance(v, dict) and "dict" in v and set(v["dict"]) == set(_names(case)[0 if f == "dyn_loss" else 1]):
                    w[f] = {"dict": {kk: v["dict"].get(kk, "1") for kk in ks}}
                else:
                    w[f] = v
            cc["weights"] = w
            if cc.get("obs") and cc["obs"].get("unknowns"):
                cc["obs"] = {**cc["obs"], "unknowns": [u for u in cc["obs"]["unknowns"] if u in us] or ["u0"]}
            cc["per_unknown"] = {u: v for u, v in (case.get("per_unknown") or {}).items() if u in us}
            cc["eq_order"] = [i for i in case.get("eq_order", range(case["E"])) if i < cc["E"]]
            cc["u_order"] = [i for i in case.get("u_order", range(case["U"])) if i < cc["U"]]
            yield cc
    if case.get("obs"):
        yield {**c, "obs": None}
    if case.get("batched"):
        yield {**c, "batched": None}
    for t in ("boundary", "norm", "ic"):
        if case["terms"].get(t):
            yield {**c, "terms": {**case["terms"], t: False}}
    if case.get("m", 1) > 1:
        yield {**c, "m": 1, "obs": ({k: v for k, v in {**case["obs"], "slice": False}.items() if k != "slices"}
                                    if case.get("obs") else None)}
    if case.get("d", 1) > 1:
        yield {**c, "d": 1}
    if case["B"] > 2:
        yield {**c, "B": 2}


def shrink_candidates(case):
    for cand in _shrink(case):
        yield c12.settle_seed(cand)


def plain_weights(pr):
    """scalar weights of the plain loss equivalent to a one-equation one-unknown system"""
    e, u = pr["eqs"][0], pr["unknowns"][0]
    out = {}
    for f, v in pr["wspec"].items():
        k = e if f == "dyn_loss" else u
        if v is None:
            out[f] = Fraction(0)
        elif isinstance(v, dict) and "dict" in v:
            out[f] = Fraction(v["dict"][k])
        else:
            out[f] = Fraction(v)
    return out


def is_plain_comparable(case, pr):
    if case["E"] != 1 or case["U"] != 1:
        return False
    e, u = pr["eqs"][0], pr["unknowns"][0]
    for f, v in pr["wspec"].items():
        if v == "vector" or (isinstance(v, dict) and "dict_vector" in v):
            return False
        if isinstance(v, dict) and "dict" in v and set(v["dict"]) != {e if f == "dyn_loss" else u}:
            return False
    return True


def run_impl(case):
    from harness import core

    world = c12.make_world(case)
    pr = world["pr"]
    try:
        loss = world["make_system"]()
    except Exception as e:
        return {"observed": {"error": core.err_kind(e), "msg": str(e)[:200], "stage": "construction"},
                "singles": [], "plain": None}
    obs = {"observed": c12.outcome_of(lambda: loss.evaluate(world["params"], world["batch"]))}
    # the same evaluation under jit: with the loss object closed over (its dicts keep the user's key order) and
    # with the loss object passed as an argument (a flatten / unflatten round trip re-sorts every dict)
    obs["observed_jit"] = None
    if "terms" in obs["observed"]:
        import equinox as eqx
        import jax
        p, b = world["params"], world["batch"]
        obs["observed_jit"] = [
            c12.outcome_of(lambda: jax.jit(lambda pp, bb: loss.evaluate(pp, bb))(p, b)),
            c12.outcome_of(lambda: eqx.filter_jit(lambda L, pp, bb: L.evaluate(pp, bb))(loss, p, b)),
        ]
    # the real single losses of every unknown on the same data (unit weights, no dynamic part)
    singles = []
    for u in pr["unknowns"]:
        L, pu, bu = world["single_loss"](u, None, {"dyn_loss": 0.0})
        singles.append(c12.outcome_of(lambda: L.evaluate(pu, bu)))
    obs["singles"] = singles
    obs["plain"] = None
    if is_plain_comparable(case, pr):
        e, u = pr["eqs"][0], pr["unknowns"][0]
        w = {k: float(v) for k, v in plain_weights(pr).items()}
        L, pu, bu = world["single_loss"](u, world["make_eq"](e, plain_for=u), w)
        obs["plain"] = c12.outcome_of(lambda: L.evaluate(pu, bu))
    return obs


def _strip(o):
    return None if o is None else {k: v for k, v in o.items() if k not in ("msg", "stage")}


def lean_request(case, obs):
    pr = c12.build(case)
    req = {"op": "c13", "params": c12.params_json(pr["params"]), "readers": c12.readers_json(pr),
           "sys": c12.sys_json(pr), "observed": _strip(obs["observed"]),
           "singles": [_strip(s) for s in obs["singles"]], "plain": _strip(obs["plain"]), "plain_single": None}
    if obs["plain"] is not None:
        u = pr["unknowns"][0]
        ps = c12.single_json(pr, u, plain_weights(pr), True, c12.rows_json(pr["param_rows"]))
        req["plain_single"] = ps
    reqs = [req]
    # the jitted evaluations are judged by the same predicate on their own outputs
    for o in obs.get("observed_jit") or []:
        reqs.append({**req, "observed": _strip(o)})
    return reqs


def judge(case, obs, a):
    if isinstance(a, list):
        for i, x in enumerate(a):
            v = judge(case, obs, x)
            if v["status"] != "ok":
                v["execution"] = ["eager", "jit(loss closed over)", "jit(loss as argument)"][i]
                return v
        return {"status": "ok", "clause": None}
    if not a["holds"]:
        return {"status": "violation", "clause": a["clause"], "model": a["model"]}
    if not a["agree"]:
        return {"status": "disagree", "clause": "model-outcome-differs", "model": a["model"]}
    if "terms" in obs["observed"] and not a["singles_agree"]:
        return {"status": "disagree", "clause": "model-single-losses-differ", "model": a["model_singles"]}
    if not a["plain_agree"]:
        return {"status": "disagree", "clause": "model-plain-loss-differs", "model": a["model_plain"]}
    return {"status": "ok", "clause": None}


def nontrivial(case, obs):
    o = obs["observed"]
    if "terms" not in o:
        return False
    t = o["terms"]
    cons = any(Fraction(v) != 0 for k, v in t.items() if k != "dyn_loss")
    if Fraction(t["dyn_loss"]) == 0 or not cons:
        return False
    return (case["E"], case["U"]) != (1, 1) or obs["plain"] is not None


def tags(case, obs):
    return _tags0(case, obs) + (["heterogeneous_parameter"] if case.get("het") else []) + \
        (["scalar_weights_as_0d_arrays"] if case.get("w0d") else [])


def _tags0(case, obs):
    out = [f"kind={case['kind']}", f"E={case['E']}", f"U={case['U']}", f"E_U={case['E']}x{case['U']}"]
    for f, v in case["weights"].items():
        if v is None:
            out.append("weight=missing")
        elif v == "vector":
            out.append("weight=vector(malformed)")
        elif isinstance(v, dict) and "dict_vector" in v:
            out.append("weight=dict_of_vectors(malformed)")
        elif isinstance(v, dict):
            out.append("weight=dict")
        else:
            out.append("weight=scalar")
    if case.get("bad_field"):
        out.append("malformed_weights")
    if case.get("same_names"):
        out.append("equation_keys=unknown_keys")
    if case.get("batched"):
        out.append("parameter_batch")
    if case.get("obs"):
        out.append("observations")
        sl = case["obs"].get("slices")
        if sl and len(set(sl.values())) > 1:
            out.append("per_unknown_obs_slices_differ")
    if len({(v or {}).get("bdim") for v in (case.get("per_unknown") or {}).values()}) > 1 and case.get("m", 1) > 1:
        out.append("per_unknown_boundary_dims_differ")
    o = obs["observed"]
    out.append("impl=" + ("error:" + o["error"] if "error" in o else "value"))
    if obs.get("plain") is not None:
        out.append("plain_loss_compared")
    if obs.get("observed_jit"):
        out.append("eager_and_jitted")
    es, us = _names(case)
    for f, v in case["weights"].items():
        if isinstance(v, dict) and "dict" in v and len(v["dict"]) > 1:
            own = [(es if f == "dyn_loss" else us)[i] for i in case.get("eq_order" if f == "dyn_loss" else "u_order",
                                                                         range(len(v["dict"])))]
            if list(v["dict"]) != own and set(v["dict"]) == set(own):
                out.append("weight_dict_order!=loss_dict_order" + ("(dyn_loss)" if f == "dyn_loss" else ""))
    return out


def widen(rng, bad_cases):
    out = []
    for c in bad_cases:
        for _ in range(4):
            out.append(c12.settle_seed({**c, "seed": rng.randrange(1 << 30)}))
        out.extend(shrink_candidates(c))
    return out
