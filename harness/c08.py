"""
C08 — collocation points lie in the declared domain, with declared counts and shapes.
Correspondence: real DataGeneratorODE / CubicMeshPDEStatio / CubicMeshPDENonStatio (uniform and
grid, dims 1-3 interior, 1-2 border, float64 and float32 stores) against JinnsModel/Domain.lean.
Uniform draws are oracle inputs (the stores are extracted from the implementation; the model
validates the sampler contract and recomputes everything else); reshuffles are oracle inputs as
in C09 (the permutation of the initial store observed after each request).
"""
from __future__ import annotations

import contextlib
import itertools
import math
from fractions import Fraction

from harness import core

PROP = "C08"
LEVEL_TEXT = ("Lean 4 theorems, for all domains (min <= max, any sign/size), counts, batch sizes, methods, sampler "
              "oracles honouring the contract (uniform samples lie in [min,max]; choice(replace=False) permutes) and ALL "
              "histories of get_batch: the grid store min + k(max-min)/n has exactly n points, all in [min,max); the "
              "multi-dimensional grid has n points in the box and is rejected (TypeError) iff round(sqrt n)^dim != n; "
              "a built store has exactly n / nt points in the closed box / interval; the 2-D border store has nb/4 "
              "rows = nb points, facet f (order xmin,xmax,ymin,ymax) has its pinned coordinate EQUAL to the bound and "
              "the free one in range; the 1-D border is (xmin,xmax); the constructor accepts nb iff it is a positive "
              "multiple of 2*dim with >= bb points per facet (ValueError otherwise; TypeError for nb=None; "
              "NotImplementedError for dim>2; AssertionError for bounds of the wrong length); every batch of every "
              "history has the declared length and only points of the box (invariant through the C09 machine, any "
              "epoch size); every space-time row is (t in [tmin,tmax], x in box) and every border row lies on its "
              "facets.  Tied to /repo on every run by exact differential execution; Holds.C08 is evaluated on the "
              "implementation's own stores and batches."
              "  Holds.C08 itself is proved of the model's whole trace (stores and every batch of every get_batch history) for the ODE, stationary, non-stationary and RAR-configured generators (ode_history_holds, statio_history_holds, nonstatio_history_holds, *_rar_history_holds).")
LEVEL_NOTE = ("Trusted: Lean kernel + {propext, Classical.choice, Quot.sound}; the model's tie to the code is "
              "differential (generated scopes below).  Runtime facts stated as contracts and observed on every case, not "
              "proved: jax.random.uniform honours [minval,maxval]; float arithmetic of the grid (model over exact "
              "rationals; compared by equality when the step is dyadic, else within 4 ulp at the scale of the larger "
              "bound — counted in the tag 'grid_ulp_rule').  Generators built WITH the RAR set-up (n_start < n, fresh) are "
              "covered: the whole pre-allocated store and every batch must lie in the domain, for the epoch size "
              "n_start (theorems for any epoch size); the refinement step itself is C16/C17's.")
TECHNIQUE = ("Lean 4 proof (ordered-field arithmetic for the grid, case analysis of the constructors, induction over "
             "request histories with the box invariant) + exact differential correspondence with PRNG as oracle")
THEOREMS = [
    "Jinns.Domain.gridStore_length",
    "Jinns.Domain.gridStore_getElem",
    "Jinns.Domain.gridStore_mem",
    "Jinns.Domain.gridStore_lt_max",
    "Jinns.Domain.gridOmega_ok",
    "Jinns.Domain.gridOmega_reject_iff",
    "Jinns.Domain.uniformOmega_ok",
    "Jinns.Domain.mkTimes_ok",
    "Jinns.Domain.mkTimes_reject",
    "Jinns.Domain.run_batches_all",
    "Jinns.Domain.run_batches_length",
    "Jinns.Domain.batches_of_perm_history",
    "Jinns.Domain.ode_history",
    "Jinns.Domain.border2_length",
    "Jinns.Domain.border2_row",
    "Jinns.Domain.border2_facet_points",
    "Jinns.Domain.border2_rows_ok",
    "Jinns.Domain.border1d_row_ok",
    "Jinns.Domain.borderParams_ok_iff",
    "Jinns.Domain.borderParams_reject",
    "Jinns.Domain.borderParams_other",
    "Jinns.Domain.mkStatio_ok",
    "Jinns.Domain.mkStatio_assert",
    "Jinns.Domain.mkOmega_ok",
    "Jinns.Domain.mkOmega_reject_method",
    "Jinns.Domain.mkBorder_ok",
    "Jinns.Domain.mkBorder_not_implemented",
    "Jinns.Domain.statio_stores",
    "Jinns.Domain.statio_history",
    "Jinns.Domain.combine_rows",
    "Jinns.Domain.nonstatio_history",
    "Jinns.Domain.mkNonStatio_ok",
    "Jinns.Domain.sliceGuard_ok_iff",
    "Jinns.Domain.holdsPoints_of_box",
    "Jinns.Domain.holdsTimes_of_interval",
    "Jinns.Domain.ode_history_holds",
    "Jinns.Domain.rarStart_spec",
    "Jinns.Domain.mkStatioRar_ok",
    "Jinns.Domain.mkTimesRar_ok",
    "Jinns.Domain.batches_any_epoch_size",
    "Jinns.Domain.statio_rar_history",
    "Jinns.Domain.ode_rar_history",
    "Jinns.Domain.statio_stores_holds",
    "Jinns.Domain.statio_trace_holds",
    "Jinns.Domain.statio_history_holds",
    "Jinns.Domain.statio_rar_history_holds",
    "Jinns.Domain.nonstatio_trace_holds",
    "Jinns.Domain.nonstatio_history_holds",
    "Jinns.Domain.nonstatio_rar_history_holds",
]
LEAN_MODULES = ["JinnsProofs.C08", "JinnsProofs.C08Holds"]
RULE = ("cases = (generator kind, method, dtype, domain, counts, batch sizes, number of get_batch calls) or constructor "
        "arguments that must be rejected; observed: the stores after construction and every batch (exact rationals), "
        "the permutation applied by every reshuffle; non-trivial = a well-formed case with a non-degenerate domain "
        "(min < max on every axis), at least 2 stored points and at least one reshuffle after the first request; "
        "distinct = distinct case dicts")
ASSUMPTIONS = [
    "jax.random.uniform(minval, maxval) returns samples in [minval, maxval] (checked on every observed store: "
    "Holds.C08 store clauses)",
    "jax.random.choice(replace=False) permutes (checked on every observed reshuffle: oracle_contract)",
    "float grid arithmetic is within 4 ulp (at the scale of the larger bound) of the exact grid; exact when the step "
    "is dyadic",
    "generators built with rar_parameters are fresh (rar_iter_nb = 0: epoch size n_start); the refinement step "
    "itself (replacement of inactive points) belongs to C16/C17",
]
EXHAUSTIVE = {"quick": False, "thorough": False}


def _qs(x):
    """exact rational of a finite float; non-finite floats cross the protocol as "nan" / "inf" / "-inf"
    (a non-finite coordinate is an observation - a point outside every domain - not a harness failure)"""
    x = float(x)
    if math.isnan(x):
        return "nan"
    if math.isinf(x):
        return "inf" if x > 0 else "-inf"
    return core.qstr(x)


def _ql(a):
    import numpy as np

    a = np.asarray(a)
    if a.ndim == 0:
        return _qs(a.item())
    return [_ql(x) for x in a]


INTERVALS = [(0.0, 1.0), (-1.0, 1.0), (-3.0, 3.0), (-2.5, -0.5), (0.25, 8.0), (-1024.0, 3.0), (5.0, 5.5), (-0.125, 0.0),
             (1.0, 3.0), (-3.0, -1.0)]
# intervals that do not contain 0 (a store row left at the origin is then outside the domain)
NOZERO = [(1.0, 3.0), (-3.0, -1.0), (0.25, 8.0), (-2.5, -0.5), (5.0, 5.5)]
RAR = {"start_iter": 10, "update_every": 5, "sample_size_omega": 4, "selected_sample_size_omega": 2,
       "sample_size_times": 4, "selected_sample_size_times": 2}


def _dom(rng, dim):
    iv = [rng.choice(INTERVALS) for _ in range(dim)]
    return [a for a, _ in iv], [b for _, b in iv]


def _ode(rng, nt, bt, method, requests, x64=True):
    lo, hi = rng.choice(INTERVALS)
    return {"kind": "ode", "method": method, "nt": nt, "bt": bt, "tmin": lo, "tmax": hi, "requests": requests,
            "x64": x64, "seed": rng.randrange(1 << 30)}


def _statio(rng, dim, n, b, nb, bb, method, requests, x64=True):
    mins, maxs = _dom(rng, dim)
    return {"kind": "statio", "method": method, "dim": dim, "n": n, "b": b, "nb": nb, "bb": bb, "mins": mins,
            "maxs": maxs, "requests": requests, "x64": x64, "seed": rng.randrange(1 << 30)}


def _nonstatio(rng, dim, n, b, nb, bb, nt, bt, cart, method, requests):
    c = _statio(rng, dim, n, b, nb, bb, method, requests)
    lo, hi = rng.choice(INTERVALS)
    c.update({"kind": "nonstatio", "nt": nt, "bt": bt, "tmin": lo, "tmax": hi, "cart": cart})
    return c


def _req(rng, n, b, deep):
    q = -(-n // max(b, 1))
    return min(60, q * rng.choice([1, 2, 3] if deep else [1, 2]) + rng.choice([1, 2]))


def gen_cases(rng, tier):
    deep = tier != "quick"
    cases = []
    counts = [1, 2, 3, 4, 5, 7, 8, 9, 12, 16, 25, 33, 49, 64]
    # ---- ODE
    for method in ("uniform", "grid"):
        for nt in (counts if deep else [1, 3, 4, 8, 9, 16, 49, 64]):
            bt = rng.randint(1, nt)
            cases.append(_ode(rng, nt, bt, method, _req(rng, nt, bt, deep)))
    cases.append(_ode(rng, 12, 5, "uniform", 8, x64=False))
    cases.append(_ode(rng, 49, 7, "grid", 9, x64=False))
    # grid counts (the float-arange defect): a spread in quick, every n <= 256 in thorough, f32 and f64
    ns = range(1, 257) if deep else [47, 49, 94, 98, 103, 107, 173, 188, 196, 197, 255, 256]
    for n in ns:
        for x64 in (True, False):
            c = _ode(rng, n, 1, "grid", 1, x64=x64)
            c["tmin"], c["tmax"] = rng.choice([(0.0, 1.0), (-3.0, 3.0)])
            cases.append(c)
    # ---- stationary
    for dim in (1, 2, 3):
        for method in ("uniform", "grid"):
            reps = 12 if deep else 3
            for _ in range(reps):
                if method == "grid" and dim == 2:
                    n = rng.choice([1, 4, 9, 16, 25, 36, 49, 64])
                elif method == "grid" and dim == 3:
                    n = 1
                else:
                    n = rng.choice(counts)
                b = rng.randint(1, n)
                if dim == 1:
                    nb, bb = rng.choice([(None, None), (2, 2), (7, 5), (None, 1)])
                elif dim == 2:
                    bb = rng.choice([None, 1, 2, 3, 4])
                    nb = None if bb is None else 4 * (bb * rng.choice([1, 2, 3]) + rng.choice([0, 1]))
                else:
                    nb, bb = None, None
                cases.append(_statio(rng, dim, n, b, nb, bb, method, _req(rng, n, b, deep)))
    cases.append(_statio(rng, 2, 9, 4, 12, 2, "uniform", 6, x64=False))
    cases.append(_statio(rng, 2, 16, 5, 8, 1, "grid", 6, x64=False))
    # the library's default precision on boxes whose bounds use the whole float32 mantissa and with |min| > |max|:
    # a border coordinate computed as min + (max - min) instead of pinned to max leaves its facet by one ulp
    import numpy as _np
    f32 = lambda v: float(_np.float32(v))
    for (mins, maxs) in (([-1.5, -2.5], [0.7, 0.1]), ([-2.5, -1.5], [0.1, 0.7])):
        c = _statio(rng, 2, 9, 4, 12, 2, "uniform", 4, x64=False)
        c["mins"], c["maxs"] = [f32(v) for v in mins], [f32(v) for v in maxs]
        cases.append(c)
        c2 = _nonstatio(rng, 2, 8, 2, 8, 2, 4, 2, True, "uniform", 3)
        c2["x64"] = False
        c2["mins"], c2["maxs"] = [f32(v) for v in mins], [f32(v) for v in maxs]
        cases.append(c2)
    # ---- non-stationary
    for dim in (1, 2):
        for cart in (True, False):
            for method in ("uniform", "grid"):
                for _ in range(6 if deep else 1):
                    n = rng.choice([4, 9, 16]) if method == "grid" and dim == 2 else rng.choice([2, 3, 5, 8, 12])
                    nt = rng.choice([2, 3, 5, 8, 12])
                    bt = rng.randint(1, min(n, nt) if not cart else nt)
                    b = bt if not cart else rng.randint(1, n)
                    with_border = rng.random() < 0.7
                    if not with_border:
                        nb, bb = None, None
                    elif dim == 1:
                        nb, bb = 2, 2
                    else:
                        bb = bt if not cart else rng.randint(1, 3)
                        nb = 4 * (bb + rng.choice([0, 1, 3]))
                    cases.append(_nonstatio(rng, dim, n, b, nb, bb, nt, bt, cart, method, _req(rng, n, b, deep)))
    # ---- generators built WITH the RAR set-up (fresh, no refinement step): the whole pre-allocated store
    # (active or not) must lie in the domain, and so must every batch - including the fixed-size slice
    # that runs past the n_start active points when n_start is not a multiple of the batch size
    def _rar_sizes(total_choices):
        n = rng.choice(total_choices)
        n_start = rng.randint(1, n - 1)
        divs = [b for b in range(1, n_start + 1) if n_start % b != 0]
        b = rng.choice(divs) if divs and rng.random() < 0.8 else rng.randint(1, n_start)
        return n, n_start, b

    for _ in range(6 if deep else 2):
        for method in ("uniform", "grid"):
            nt, nt_start, bt = _rar_sizes([4, 5, 7, 8, 12, 16])
            c = _ode(rng, nt, bt, method, min(60, 2 * (-(-nt_start // bt)) + 2))
            c["tmin"], c["tmax"] = rng.choice(NOZERO + INTERVALS)
            c.update({"rar": True, "nt_start": nt_start})
            cases.append(c)
    for dim in (1, 2, 3):
        for _ in range(6 if deep else 2):
            for method in (("uniform", "grid") if dim == 1 else ("uniform",)):
                n, n_start, b = _rar_sizes([4, 5, 7, 9, 12, 16])
                if dim == 2 and rng.random() < 0.5:
                    nb, bb = 8, 2
                else:
                    nb, bb = None, None
                c = _statio(rng, dim, n, b, nb, bb, method, min(60, 2 * (-(-n_start // b)) + 2))
                iv = [rng.choice(NOZERO if rng.random() < 0.7 else INTERVALS) for _ in range(dim)]
                c["mins"], c["maxs"] = [a for a, _ in iv], [z for _, z in iv]
                c.update({"rar": True, "n_start": n_start})
                cases.append(c)
    for dim in (1, 2):
        for cart in (True, False):
            for _ in range(3 if deep else 1):
                n, n_start, b = _rar_sizes([5, 7, 9, 12])
                nt, nt_start, bt = _rar_sizes([5, 7, 9, 12])
                if not cart:
                    bt = b = min(b, bt)
                c = _nonstatio(rng, dim, n, b, None, None, nt, bt, cart, "uniform",
                               min(60, 2 * max(-(-n_start // b), -(-nt_start // bt)) + 2))
                iv = [rng.choice(NOZERO) for _ in range(dim)]
                c["mins"], c["maxs"] = [a for a, _ in iv], [z for _, z in iv]
                c["tmin"], c["tmax"] = rng.choice(NOZERO)
                c.update({"rar": True, "n_start": n_start, "nt_start": nt_start})
                cases.append(c)
    # more time points than space points and conversely (each store must use its own count)
    for dim in (1, 2):
        for n, nt in ((4, 9), (9, 4), (4, 4), (1, 5)):
            cart = rng.random() < 0.5
            bt = rng.randint(1, min(n, nt))
            cases.append(_nonstatio(rng, dim, n, bt if not cart else rng.randint(1, n), None, None, nt, bt, cart,
                                    "grid", 3))
    # ---- malformed stream (arguments the constructors / the first request must reject) and near misses
    bad = [
        _statio(rng, 2, 4, 2, 6, 1, "uniform", 1),            # nb not a multiple of 4
        _statio(rng, 2, 4, 2, 2, 1, "uniform", 1),            # nb < 4
        _statio(rng, 2, 4, 2, 0, 0, "uniform", 1),            # nb = 0
        _statio(rng, 2, 4, 2, 8, 3, "uniform", 1),            # fewer points per facet than the batch
        _statio(rng, 2, 4, 2, 8, 2, "uniform", 2),            # near miss: accepted
        _statio(rng, 2, 4, 2, None, 1, "uniform", 1),         # nb None with a border batch size
        _statio(rng, 3, 4, 2, 12, 2, "uniform", 1),           # border in dimension 3
        _statio(rng, 3, 4, 2, 10, 2, "uniform", 1),           # dimension 3, nb not a multiple of 6
        _statio(rng, 3, 8, 2, 12, 2, "grid", 1),              # dimension 3: reshape fails before the border
        _statio(rng, 2, 4, 2, None, None, "foo", 1),          # unknown method
        _statio(rng, 3, 4, 2, 12, 2, "foo", 1),               # unknown method before NotImplemented
        _statio(rng, 2, 5, 2, None, None, "grid", 1),         # non-square grid
        _statio(rng, 2, 8, 2, None, None, "grid", 1),
        _statio(rng, 3, 8, 2, None, None, "grid", 1),         # cube of 2 is not accepted either
        _statio(rng, 2, 4, 5, None, None, "uniform", 1),      # batch larger than the store
        _statio(rng, 1, 3, 4, None, None, "grid", 1),
        _statio(rng, 1, 4, 2, 7, 5, "uniform", 3),            # 1-D: nb/bb ignored
        _ode(rng, 4, 5, "uniform", 1),                        # batch larger than the store
        _ode(rng, 4, 2, "foo", 1),
        _nonstatio(rng, 2, 4, 2, 8, 2, 4, 3, False, "uniform", 1),   # pairing with bt != b
        _nonstatio(rng, 2, 4, 2, 8, 1, 4, 2, False, "uniform", 1),   # pairing with bt != bb
        _nonstatio(rng, 1, 4, 2, 2, 2, 4, 3, False, "uniform", 1),
        _nonstatio(rng, 2, 4, 2, 6, 1, 4, 3, False, "uniform", 1),   # nb guard before the pairing guard
        _nonstatio(rng, 2, 4, 2, 8, 2, 3, 4, True, "uniform", 1),    # temporal batch larger than nt
        _nonstatio(rng, 2, 4, 2, 8, 2, 4, 2, True, "foo", 1),
    ]
    c = _statio(rng, 2, 4, 2, None, None, "uniform", 1); c["rar"] = True          # RAR without n_start
    bad.append(c)
    c = _statio(rng, 2, 4, 2, 6, 1, "foo", 1); c["rar"] = True                    # ... comes before the other guards
    bad.append(c)
    c = _ode(rng, 4, 2, "uniform", 1); c["rar"] = True                            # RAR without nt_start
    bad.append(c)
    c = _nonstatio(rng, 2, 4, 2, None, None, 4, 2, True, "uniform", 1)
    c.update({"rar": True, "n_start": 2})                                         # n_start given, nt_start missing
    bad.append(c)
    c = _nonstatio(rng, 2, 4, 2, None, None, 4, 3, False, "uniform", 1)
    c.update({"rar": True, "n_start": 2})                                         # pairing guard before nt_start
    bad.append(c)
    c = _statio(rng, 2, 4, 2, None, None, "uniform", 1); c["n_start"] = 2         # n_start without RAR: ignored
    bad.append(c)
    c = _statio(rng, 2, 4, 2, None, None, "uniform", 1)
    c["mins"] = c["mins"][:1]                                  # bounds of the wrong length
    bad.append(c)
    c = _statio(rng, 2, 4, 2, None, None, "uniform", 1)
    c["maxs"] = c["maxs"] + [1.0]
    bad.append(c)
    for c in bad:
        c["malformed_stream"] = True
    cases += bad
    return cases


def shrink_candidates(case):
    for c in _shrink_candidates(case):
        if c.get("rar"):
            if c["kind"] != "ode" and c.get("n_start") and not (1 <= c["n_start"] <= c["n"]):
                continue
            if c["kind"] != "statio" and c.get("nt_start") and not (1 <= c["nt_start"] <= c["nt"]):
                continue
        yield c
    if case.get("rar"):
        for k, tot in (("n_start", "n"), ("nt_start", "nt")):
            if case.get(k) and case[k] > 1:
                yield {**case, k: case[k] - 1}


def _shrink_candidates(case):
    if case.get("requests", 1) > 1:
        yield {**case, "requests": case["requests"] // 2}
        yield {**case, "requests": case["requests"] - 1}
    if case["kind"] == "ode":
        if case["nt"] > case["bt"]:
            yield {**case, "nt": max(case["bt"], case["nt"] // 2)}
            yield {**case, "nt": case["nt"] - 1}
        if case["bt"] > 1:
            yield {**case, "bt": case["bt"] - 1}
        return
    if case["method"] != "grid" or case["dim"] == 1:
        if case["n"] > case["b"]:
            yield {**case, "n": max(case["b"], case["n"] // 2)}
            yield {**case, "n": case["n"] - 1}
    if case["b"] > 1 and not (case["kind"] == "nonstatio" and not case["cart"]):
        yield {**case, "b": case["b"] - 1}
    if case["kind"] == "nonstatio" and case["nt"] > case["bt"]:
        yield {**case, "nt": case["nt"] - 1}
    if case["bb"] is not None and case["dim"] == 2 and case["nb"] and case["nb"] // 4 > case["bb"]:
        yield {**case, "nb": case["nb"] - 4}


def _build(case):
    import jax
    from jinns.data._DataGenerators import DataGeneratorODE, CubicMeshPDEStatio, CubicMeshPDENonStatio

    key = jax.random.PRNGKey(case["seed"])
    rar = dict(RAR) if case.get("rar") else None
    if case["kind"] == "ode":
        return DataGeneratorODE(key, case["nt"], case["tmin"], case["tmax"], case["bt"], method=case["method"],
                                rar_parameters=rar, nt_start=case.get("nt_start"))
    kw = dict(key=key, rar_parameters=rar, n_start=case.get("n_start"), n=case["n"], nb=case["nb"], omega_batch_size=case["b"], omega_border_batch_size=case["bb"],
              dim=case["dim"], min_pts=tuple(case["mins"]), max_pts=tuple(case["maxs"]), method=case["method"])
    if case["kind"] == "statio":
        return CubicMeshPDEStatio(**kw)
    return CubicMeshPDENonStatio(nt=case["nt"], temporal_batch_size=case["bt"], tmin=case["tmin"],
                                 tmax=case["tmax"], cartesian_product=case["cart"], nt_start=case.get("nt_start"),
                                 **kw)


def _perm(rows0, rows):
    from collections import defaultdict, deque

    pos = defaultdict(deque)
    for i, r in enumerate(rows0):
        pos[r.tobytes()].append(i)
    out = []
    for r in rows:
        q = pos[r.tobytes()]
        out.append(q.popleft() if q else len(rows0))
    return out


def _stores(case, g):
    import numpy as np

    st = {}
    if case["kind"] in ("ode", "nonstatio"):
        st["times"] = np.asarray(g.times)
    if case["kind"] in ("statio", "nonstatio"):
        st["omega"] = np.asarray(g.omega)
        bd = g.omega_border
        st["border1"] = None if (bd is None or case["dim"] != 1) else np.asarray(bd)
        st["border2"] = None if (bd is None or case["dim"] == 1) else np.asarray(bd)
    return st


def _run(case):
    import numpy as np

    try:
        g = _build(case)
    except Exception as e:  # noqa: BLE001
        return {"error": core.err_kind(e), "stage": "init", "stores": None, "steps": []}
    st0 = _stores(case, g)
    obs = {"error": None, "stage": None,
           "stores": {k: (None if v is None else _ql(v)) for k, v in st0.items()},
           "shapes": {k: (None if v is None else list(v.shape)) for k, v in st0.items()},
           "dtype": str(next(v.dtype for v in st0.values() if v is not None)),
           "steps": [], "resets": 0}
    prev = {k: v.copy() for k, v in st0.items() if v is not None}
    for r in range(case["requests"]):
        try:
            g, bt = g.get_batch()
        except Exception as e:  # noqa: BLE001
            obs["error"], obs["stage"] = core.err_kind(e), "batch"
            break
        st = _stores(case, g)
        step = {}
        for name in ("times", "omega", "border2"):
            if st.get(name) is not None:
                step[f"{'border' if name == 'border2' else name}_perm"] = _perm(list(st0[name]), list(st[name]))
                if r > 0 and not np.array_equal(st[name], prev[name]):
                    obs["resets"] += 1
                prev[name] = st[name].copy()
        if case["kind"] == "ode":
            step["t"] = _ql(np.asarray(bt.temporal_batch))
            step["shape"] = list(bt.temporal_batch.shape)
        elif case["kind"] == "statio":
            step["x"] = _ql(np.asarray(bt.inside_batch))
            step["dx"] = None if bt.border_batch is None else _ql(np.asarray(bt.border_batch))
            step["shape"] = [list(bt.inside_batch.shape),
                             None if bt.border_batch is None else list(bt.border_batch.shape)]
        else:
            step["tx"] = _ql(np.asarray(bt.times_x_inside_batch))
            tdx = bt.times_x_border_batch
            step["tdx"] = None if tdx is None else _ql(np.asarray(tdx))
            step["shape"] = [list(bt.times_x_inside_batch.shape), None if tdx is None else list(tdx.shape)]
        obs["steps"].append(step)
    return obs


def run_impl(case):
    import jax

    ctx = contextlib.nullcontext() if case.get("x64", True) else jax.enable_x64(False)
    with ctx:
        return _run(case)


def _well_ranked(case, obs):
    st = obs["stores"]
    if st is not None:
        want = {"times": 1, "omega": 2, "border1": 1, "border2": 3}
        if not all(v is None or _rank_ok(v, want[k]) for k, v in st.items()):
            return False
    want = {"t": 1, "x": 2, "dx": 3, "tx": 2, "tdx": 3}
    return all(s.get(k) is None or _rank_ok(s[k], d) for s in obs["steps"] for k, d in want.items())


def lean_request(case, obs):
    if not _well_ranked(case, obs):
        return None
    req = {"op": "c08", "kind": case["kind"], "method": case["method"], "stores": obs["stores"],
           "steps": [{k: v for k, v in s.items() if k != "shape"} for s in obs["steps"]]}
    if case["kind"] in ("ode", "nonstatio"):
        req.update({"nt": case["nt"], "bt": case["bt"], "tmin": core.qstr(case["tmin"]), "tmax": core.qstr(case["tmax"])})
    if case["kind"] in ("statio", "nonstatio"):
        req.update({"n": case["n"], "nb": case["nb"], "b": case["b"], "bb": case["bb"], "dim": case["dim"],
                    "mins": [core.qstr(v) for v in case["mins"]], "maxs": [core.qstr(v) for v in case["maxs"]]})
    if case["kind"] == "nonstatio":
        req["cart"] = case["cart"]
    req.update({"rar": bool(case.get("rar")), "n_start": case.get("n_start"), "nt_start": case.get("nt_start")})
    return req


def _rank_ok(x, d):
    """x is a nested list of exactly d levels (what the model driver's parser expects)"""
    if d == 0:
        return not isinstance(x, list)
    return isinstance(x, list) and all(_rank_ok(y, d - 1) for y in x)


def _ulp(m, x64):
    if m == 0:
        return Fraction(0)
    e = math.floor(math.log2(m))
    return Fraction(2) ** (e - (52 if x64 else 23))


def _flat(a):
    if isinstance(a, list):
        for x in a:
            yield from _flat(x)
    else:
        yield a


def _grid_compare(impl, model, bounds, x64):
    """impl/model: flat lists of exact rationals (strings); bounds: the (lo, hi) the values were built from.
    Equal, or within 4 ulp at the scale of the larger bound.  Returns ok."""
    if len(impl) != len(model):
        return False
    tol = 4 * _ulp(max(abs(v) for v in bounds), x64)
    for u, v in zip(impl, model):
        fu, fv = Fraction(u), Fraction(v)
        if fu != fv and abs(fu - fv) > tol:
            return False
    return True


def judge(case, obs, a):
    if a is None:
        return {"status": "violation", "clause": "array-rank-differs-from-the-declared-shape"}
    if a.get("nonfinite"):
        return {"status": "violation", "clause": a["clause"]}
    if a["error"] == "sampler_contract":
        if not a["holds"]:
            return {"status": "violation", "clause": a["clause"], "step": a.get("step")}
        return {"status": "disagree", "clause": "sampler-contract-broken-but-Holds-true"}
    if (obs["error"], obs["stage"]) != (a["error"], a["stage"]):
        return {"status": "disagree", "clause": "rejection-differs", "impl": [obs["error"], obs["stage"]],
                "model": [a["error"], a["stage"]]}
    if not a["holds"]:
        return {"status": "violation", "clause": a["clause"], "step": a.get("step")}
    # declared array shapes (what qlist cannot carry)
    if obs["stores"] is not None:
        sh = obs["shapes"]
        if case["kind"] in ("ode", "nonstatio") and sh["times"] != [case["nt"]]:
            return {"status": "violation", "clause": "time-store-count"}
        if case["kind"] != "ode" and sh["omega"] != [case["n"], case["dim"]]:
            return {"status": "violation", "clause": "omega-store-count"}
        for s in obs["steps"]:
            if case["kind"] == "ode" and s["shape"] != [case["bt"]]:
                return {"status": "violation", "clause": "time-batch-count"}
            if case["kind"] == "statio" and s["shape"][0] != [case["b"], case["dim"]]:
                return {"status": "violation", "clause": "inside-batch-count"}
    if obs["error"] is None and len(obs["steps"]) != case["requests"]:
        return {"status": "disagree", "clause": "missing-steps"}
    if not a["oracle_contract"]:
        return {"status": "disagree", "clause": "reshuffled-store-is-not-a-permutation-of-the-initial-store"}
    if not a["agree"]:
        return {"status": "disagree", "clause": "model-trace-differs"}
    if case["method"] == "grid" and obs["stores"] is not None and a["model_store"] is not None:
        ms = a["model_store"]
        x64 = case.get("x64", True)
        ok = True
        if case["kind"] in ("ode", "nonstatio"):
            ok = ok and _grid_compare(list(_flat(obs["stores"]["times"])), list(_flat(ms["times"])),
                                      (case["tmin"], case["tmax"]), x64)
        if case["kind"] != "ode":
            io, mo = obs["stores"]["omega"], ms["omega"]
            ok = ok and len(io) == len(mo)
            for c in range(case["dim"]):      # axis by axis, each at the scale of its own bounds
                ok = ok and _grid_compare([r[c] for r in io], [r[c] for r in mo],
                                          (case["mins"][c], case["maxs"][c]), x64)
        if not ok:
            return {"status": "disagree", "clause": "grid-store-differs-from-min+k(max-min)/n"}
    return {"status": "ok", "clause": None}


def nontrivial(case, obs):
    if obs.get("error") or obs["stores"] is None:
        return False
    if case["kind"] == "ode":
        nondeg, cnt = case["tmin"] < case["tmax"], case["nt"]
    else:
        nondeg, cnt = all(a < b for a, b in zip(case["mins"], case["maxs"])), case["n"]
    return bool(nondeg and cnt >= 2 and obs.get("resets", 0) >= 1)


def tags(case, obs):
    out = [f"kind={case['kind']}", f"method={case['method']}", "float64" if case.get("x64", True) else "float32"]
    if case["kind"] != "ode":
        out.append(f"dim={case['dim']}")
        out.append("border" if case["bb"] is not None else "no_border")
    if case["kind"] == "nonstatio":
        out.append("product" if case["cart"] else "pairing")
    if case.get("rar"):
        out.append("rar_setup")
        ns, bsz = (case.get("nt_start"), case["bt"]) if case["kind"] == "ode" else (case.get("n_start"), case["b"])
        if ns:
            out.append("n_start_multiple_of_b" if ns % bsz == 0 else "n_start_not_multiple_of_b")
        bounds = ([(case["tmin"], case["tmax"])] if case["kind"] != "statio" else []) + \
            (list(zip(case["mins"], case["maxs"])) if case["kind"] != "ode" else [])
        out.append("domain_excludes_0" if any(lo > 0 or hi < 0 for lo, hi in bounds) else "domain_contains_0")
    if obs.get("error"):
        out.append(f"rejected={obs['error']}@{obs['stage']}")
    if case.get("malformed_stream"):
        out.append("malformed_stream")
    if obs.get("dtype"):
        out.append("dtype=" + obs["dtype"])
    if case["method"] == "grid" and obs.get("stores") is not None:
        steps = []
        if case["kind"] in ("ode", "nonstatio"):
            steps.append(Fraction(case["tmax"] - case["tmin"]) / case["nt"])
        if case["kind"] != "ode":
            m = case["n"] if case["dim"] == 1 else max(1, round(math.sqrt(case["n"])))
            steps += [Fraction(b - a) / m for a, b in zip(case["mins"], case["maxs"])]
        if any(st.denominator & (st.denominator - 1) for st in steps):
            out.append("grid_ulp_rule")
        else:
            out.append("grid_exact")
    return out


def widen(rng, bad_cases):
    out = []
    for c in bad_cases:
        if c["kind"] == "ode":
            for nt in range(1, 20):
                for bt in {1, max(1, nt // 2), nt}:
                    out.append({**c, "nt": nt, "bt": bt, "requests": 2 * (-(-nt // bt)) + 1})
        else:
            for n in ([1, 4, 9, 16] if c["method"] == "grid" and c["dim"] >= 2 else range(1, 12)):
                for b in {1, max(1, n // 2), n}:
                    if c["kind"] == "nonstatio" and not c["cart"]:
                        continue
                    out.append({**c, "n": n, "b": b, "requests": 2 * (-(-n // b)) + 1})
    return out
