"""
C11 — forward-mode (separable) and reverse-mode (pointwise) computations agree.
Correspondence: a real jinns `SPINN` whose `spinn_mlp` is an `eqx.Module` with the call signature of
`_SPINN.__call__(t, x)` built from POLYNOMIAL one-dimensional feature maps, and its pointwise twin, a real
jinns `PINN` computing `sum_r prod_k f_{k,r}(x_k)` (a polynomial).  The forward-mode operators, the SPINN
branches of the built-in `evaluate`s and of the boundary / initial-condition / normalisation terms are run on
batches; the reverse-mode versions on every grid point; every grid index is compared exactly with the
reverse-mode value at its point (`Holds.C11`) and with the model (JinnsModel/{Operators,Residuals,Grid,
SpinnTerms,SpinnPoly}.lean).
"""
from __future__ import annotations

import itertools
from fractions import Fraction

from harness.polynet import P

PROP = "C11"
LEVEL_TEXT = ("Lean 4 theorems: under the unit laws of the field algebra, jvp along the one-hot tangent e_i is the "
              "partial derivative d_i for every i < d and every d; hence the forward-mode Laplacian, divergence, vector "
              "Laplacian, advection and the SPINN branches of Burgers, Fisher-KPP, mass conservation and Navier-Stokes "
              "are the same fields as their reverse-mode versions (Fokker-Planck: under every additive evaluation); the "
              "row-major entry (i_0..i_{D-1}) of _get_grid is (X[i_0][0],..,X[i_{D-1}][D-1]) (time first); the separable "
              "network's output at that index is its pointwise twin sum_r prod_k feat_k(.)(mR+r) at that point, for all "
              "D, R, M, batches; combining, every forward grid entry is the reverse value at its point, for operators, "
              "residuals, Dirichlet / Neumann boundary terms, the initial-condition term and both normalisation terms.  "
              "The model is tied to /repo on every run by exact differential execution of real SPINNs with polynomial "
              "feature maps against their PINN twins (d = 1..3, batches 1..4), and Holds.C11 is evaluated on the "
              "implementation's own grids.")
LEVEL_NOTE = ("Trusted: Lean kernel + {propext, Classical.choice, Quot.sound}; JAX forward-mode AD on the whole grid "
              "enters through the contract 'jvp(f,(x,),(v,)) with the same tangent v at every row of the batch is the "
              "grid of sum_j v_j d_j f' (FieldOps.jvpX), validated only by the differential runs; user functions are "
              "assumed to act on the last axis of _get_grid; the hand-written model's tie to the code is differential "
              "(it sees the generated polynomial separable networks); scalar terms (means) are compared on batch sizes "
              "whose grid sizes are powers of two so that float64 is exact.")
TECHNIQUE = ("Lean 4 proof (one-hot sums, row-major tensor indexing by induction on the number of axes, term-by-term "
             "branch equality) + exact differential correspondence SPINN vs PINN twin")
THEOREMS = [
    "Jinns.Operators.sum_oneHot",
    "Jinns.Operators.jvp_oneHot",
    "Jinns.Operators.lapFwd_eq_lapRev",
    "Jinns.Operators.divFwd_eq_divRev",
    "Jinns.Operators.vecLapFwd_eq_vecLapRev",
    "Jinns.Operators.advFwd_eq_advRev",
    "Jinns.Residuals.burgersFwd_eq_burgersRev",
    "Jinns.Residuals.fisherFwd_eq_fisherRev",
    "Jinns.Residuals.massFwd_eq_massRev",
    "Jinns.Residuals.nsFwd_eq_nsRev",
    "Jinns.Residuals.fpeFwd_eq_fpeRev",
    "Jinns.Residuals.ouFwd_eq_ouRev",
    "Jinns.Grid.cartProd_length",
    "Jinns.Grid.cartProd_getElem",
    "Jinns.Grid.gridOf_index",
    "Jinns.Grid.getGrid_index",
    "Jinns.Grid.spinnOut_index",
    "Jinns.Grid.spinnOut_eq_twin_on_grid",
    "Jinns.Grid.gridOf_batch_index",
    "Jinns.Grid.lapFwd_grid_eq_lapRev_point",
    "Jinns.Grid.divFwd_grid_eq_divRev_point",
    "Jinns.Grid.vecLapFwd_grid_eq_vecLapRev_point",
    "Jinns.Grid.advFwd_grid_eq_advRev_point",
    "Jinns.Grid.residualsFwd_grid_eq_rev_point",
    "Jinns.Grid.fpeFwd_grid_eq_fpeRev_point",
    "Jinns.Grid.polyEvalHom",
    "Jinns.Grid.runFwd_eq_runRev",
    "Jinns.Grid.twin_length",
    "Jinns.SpinnTerms.dirichletFwd_eq_dirichletRev",
    "Jinns.SpinnTerms.dirichletFwd_index",
    "Jinns.SpinnTerms.neumannFwd_eq_neumannRev",
    "Jinns.SpinnTerms.neumannTermFwd_eq_neumannTermRev",
    "Jinns.SpinnTerms.facetMean_fwd_eq_rev",
    "Jinns.SpinnTerms.icFwd_eq_icRev",
    "Jinns.SpinnTerms.normFwdStatio_eq_normRevStatio",
    "Jinns.SpinnTerms.normFwdNonStatio_eq_normRevNonStatio",
    "Jinns.Holds.model_holdsC11",
    "Jinns.Holds.model_holdsC11_ops",
]
LEAN_MODULES = ["JinnsProofs.C11"]
RULE = ("case = (family, time or not, number of axes D, embedding R, outputs M, feature degree, integer feature "
        "coefficients, batch X of B rows, family parameters); observed per operation: the forward-mode result on the "
        "batch (flat row-major grid) and the reverse-mode result of the real PINN twin at every grid point (or the "
        "two scalar terms); non-trivial = B >= 2, D >= 2 (the grid has at least two axes of at least two coordinates, "
        "so an axis swap or a transposed grid shows), some grid entry non-zero and the grid not constant; "
        "distinct = distinct case dicts")
ASSUMPTIONS = [
    "JAX forward-mode contract: jvp(f, (x,), (v,)) with the same tangent row v at every row of the batch is the grid "
    "of the directional derivative sum_j v_j d_j f of the pointwise function (FieldOps.jvpX); reverse-mode contract as C01",
    "user functions (boundary f, initial condition) act on the last axis of the array returned by _get_grid",
    "float64 arithmetic on small integer / dyadic polynomial data is exact; scalar terms are generated on grids whose "
    "size is a power of two",
]
EXHAUSTIVE = {"quick": False, "thorough": False}

COORDS = [Fraction(k, 2) for k in range(-4, 5)]


def _q(x):
    x = Fraction(x)
    return str(x.numerator) if x.denominator == 1 else f"{x.numerator}/{x.denominator}"


# ------------------------------------------------------------------------------------------
# generation
# ------------------------------------------------------------------------------------------
def _coef(rng, D, RM, deg):
    out = []
    for _ in range(D):
        rows = []
        for _ in range(RM):
            row = [rng.randint(-2, 2) for _ in range(deg + 1)]
            if all(v == 0 for v in row[1:]):
                row[rng.randint(1, deg)] = rng.choice([-1, 1, 2])
            rows.append(row)
        out.append(rows)
    return out


def _batch(rng, B, D, distinct=True):
    """B rows, D columns; the coordinates of one axis are pairwise distinct (mostly) so that an index slip
    between grid axes or rows changes the point"""
    cols = []
    for _ in range(D):
        if distinct or rng.random() < 0.8:
            cols.append(rng.sample(COORDS, B))
        else:
            cols.append([rng.choice(COORDS) for _ in range(B)])
    return [[_q(cols[k][b]) for k in range(D)] for b in range(B)]


def _rand_poly(rng, nv, maxdeg, nterms):
    from harness.polynet import monomials

    ms = monomials(nv, maxdeg)
    c = {}
    for e in rng.sample(ms, min(nterms, len(ms))):
        v = rng.randint(-2, 2)
        if v:
            c[e] = v
    return P(nv, c)


def _base(rng, time, D, R, M, deg, B):
    return {"time": time, "D": D, "R": R, "M": M, "deg": deg, "coef": _coef(rng, D, R * M, deg),
            "X": _batch(rng, B, D)}


def _dy(rng, choices=(1, 2, Fraction(1, 2), -1, Fraction(3, 2), 0, Fraction(1, 4))):
    return _q(rng.choice(choices))


def _ops_for(time, dx, M):
    ops = ["net", "lap"]
    if M >= dx:
        ops.append("div")
    ops.append("veclap")
    if dx == 2 and M >= 2:
        ops.append("adv")
        if not time:
            ops.append("ns")
            ops.append("mass")
    return ops


def gen_cases(rng, tier):
    cases = []
    quick = tier == "quick"
    reps = 1 if quick else 4
    # ---- operators (and the stationary residuals built from them) -------------------------------
    cfgs = [(False, 1, 1), (False, 2, 2), (False, 3, 3), (True, 2, 1), (True, 3, 2)]  # (time, D, M)
    for _ in range(reps):
        for (time, D, M) in cfgs:
            dx = D - (1 if time else 0)
            Bs = [rng.choice([2, 3]), rng.choice([1, 4])] if quick else [1, 2, 3, 4]
            if D == 3 and quick:
                Bs = [rng.choice([2, 3]), 1]
            for B in Bs:
                R = 2 if quick else rng.choice([1, 2, 3])
                deg = 2 if quick else rng.choice([1, 2, 3])
                c = {"family": "ops", **_base(rng, time, D, R, M, deg, B), "ops": _ops_for(time, dx, M),
                     "nu": _dy(rng), "rho": _q(rng.choice([1, 2, 4, Fraction(1, 2)])),
                     "coef_p": _coef(rng, D, R, deg), "R_p": R}
                cases.append(c)
    if True:
        # M different from the space dimension (u_vec_ndim), M > dx
        for (time, D, M) in ([(False, 2, 3), (True, 2, 2)] if quick else [(False, 1, 2), (False, 2, 3), (True, 2, 2), (True, 3, 3)]):
            for B in ((2,) if quick else (2, 3)):
                cases.append({"family": "ops", **_base(rng, time, D, rng.choice([1, 2]), M, 2, B),
                              "ops": ["net", "lap", "div", "veclap"], "nu": "0", "rho": "1",
                              "coef_p": _coef(rng, D, 1, 1), "R_p": 1})
    # ---- non-stationary built-in residuals -------------------------------------------------------
    for _ in range(reps):
        for name, D in [("burgers", 2), ("fisher", 2), ("fisher", 3), ("ou", 3)]:
            Bs = [rng.choice([2, 3]), rng.choice([1, 4])] if quick else [1, 2, 3, 4]
            if D == 3 and quick:
                Bs = [rng.choice([2, 3])]
            for B in Bs:
                R = 2 if quick else rng.choice([1, 2, 3])
                deg = 2 if quick else rng.choice([1, 2, 3])
                c = {"family": "residual", **_base(rng, True, D, R, 1, deg, B), "name": name,
                     # (a rescaled time in every run: Tmax = 1 hides a factor that is dropped)
                     "Tmax": _q(rng.choice([2, Fraction(1, 2)]) if B == Bs[0] else rng.choice([1, 2, Fraction(1, 2)])),
                     "nu": _dy(rng, (1, 2, Fraction(1, 2), -1, Fraction(3, 2), Fraction(1, 4))) if B == Bs[0] else _dy(rng),
                     "Dc": _dy(rng), "r": _dy(rng),
                     "g": _dy(rng), "alpha": [_dy(rng), _dy(rng)], "mu": [_dy(rng), _dy(rng)],
                     "sigma": [_q(rng.choice([1, 2, Fraction(1, 2)])), _q(rng.choice([1, 2, -1]))]}
                cases.append(c)
    # heterogeneous growth rate r(x) in one space dimension (Fisher-KPP): the separable version gets the map on the
    # batch column, the pointwise version at the point; compared grid index by grid index (no model: Holds only)
    for B in ((2, 3) if quick else (1, 2, 3, 4)):
        c = {"family": "residual", **_base(rng, True, 2, 2, 1, 2, B), "name": "fisher",
             "Tmax": _q(rng.choice([1, 2])), "nu": "0", "Dc": _dy(rng), "r": _q(rng.choice([1, 2, -1])),
             "g": _dy(rng), "alpha": ["0", "0"], "mu": ["0", "0"], "sigma": ["1", "1"],
             "het_r": _q(rng.choice([1, 2, Fraction(1, 2)]))}
        cases.append(c)
    # ---- boundary terms ---------------------------------------------------------------------------
    for _ in range(1 if quick else 2):
        for time in (False, True):
            for dx in (1, 2):
                D = dx + (1 if time else 0)
                for bkind in ("dirichlet", "neumann"):
                    for M, dim in ((1, [0, 1]), (2, [1, 2])) + ((() if bkind == "neumann" else ((2, [0, 2]),))):
                        # B = 1 and one B >= 2 in every run: the two ends of the "1-D or one point?" confusion
                        Bs = [1, rng.choice([2, 3, 4])] if quick else [1, 2, 3, 4]
                        if quick and D == 3:
                            Bs = [1, rng.choice([2, 3])]
                        for B in Bs:
                            nf = 2 * dx
                            facets = list(range(nf))
                            ncomp = dim[1] - dim[0]
                            f = [_rand_poly(rng, D, 2, 3).to_json() for _ in range(ncomp)]
                            const_f = rng.choice([True, "arr"]) if rng.random() < 0.3 else False
                            cases.append({"family": "boundary", **_base(rng, time, D, 2, M, 2, B), "bkind": bkind,
                                          "dx": dx, "facets": facets, "dim": dim, "f": f, "f_float": const_f})
    # a one-component initial condition written without the component axis, one space dimension, several points
    cases.append({"family": "ic", "f_drop": True, **_base(rng, True, 2, 2, 1, 2, rng.choice([2, 4])),
                  "f": [_rand_poly(rng, 2, 2, 3).subs_affine(0, 0, 0).to_json()], "w": "1"})
    # ---- scalar terms: initial condition, normalisation, one-facet boundary mean (grid sizes powers of two) ----
    for _ in range(reps):
        for dx in (1, 2):
            for B in ([rng.choice([1, 2, 4])] if quick else [1, 2, 4]):
                for M in (1, 2):
                    cases.append({"family": "ic", "f_drop": M == 1 and B >= 2, **_base(rng, True, dx + 1, 2, M, 2, B),
                                  "f": [_rand_poly(rng, dx + 1, 2, 3).subs_affine(0, 0, 0).to_json() for _ in range(M)],
                                  "w": _q(rng.choice([1, 2, Fraction(1, 2)]))})
        for D in (1, 2, 3):
            for B in ([rng.choice([2, 4])] if quick else [1, 2, 4]):
                for M in ((1,) if quick and D == 3 else (1, 2)):
                    cases.append({"family": "norm_statio", **_base(rng, False, D, 2, M, 2, B),
                                  "L": _q(rng.choice([1, 2, Fraction(1, 2), 4])), "w": _q(rng.choice([1, 2]))})
        for dx in (1, 2):
            # (2, 4) in every run: more samples than time stamps, at least two time stamps (repeat vs tile shows)
            for (Bt, Bn) in ([(2, 4), rng.choice([(1, 2), (2, 2), (4, 4)])] if quick else [(1, 1), (1, 2), (2, 2), (2, 4), (4, 4), (1, 4)]):
                c = {"family": "norm_nonstatio", **_base(rng, True, dx + 1, 2, 1, 2, Bn),
                     "L": _q(rng.choice([1, 2, Fraction(1, 2)])), "w": _q(rng.choice([1, 2]))}
                c["T"] = [_q(t) for t in rng.sample(COORDS, Bt)]
                c["X"] = [row[1:] for row in c["X"]]  # spatial sample rows only
                cases.append(c)
        for time in (False, True):
            for dx in (1, 2):
                D = dx + (1 if time else 0)
                B = rng.choice([2, 4]) if dx == 1 or not time else 2
                cases.append({"family": "facet_mean", **_base(rng, time, D, 2, 1, 2, B), "dx": dx,
                              "facet": rng.randrange(2 * dx), "f": [_rand_poly(rng, D, 2, 3).to_json()],
                              "w": _q(rng.choice([1, 2, Fraction(1, 2)]))})
    # keep cases with the same static configuration adjacent (one XLA compilation per worker)
    cases.sort(key=lambda c: (c["family"], c["time"], c["D"], c["M"], c["R"], c["deg"], len(c["X"])))
    return cases


def shrink_candidates(case):
    if case["family"] == "ops" and len(case["ops"]) > 1:
        for o in case["ops"]:
            yield {**case, "ops": [o]}
    if case["family"] == "boundary" and len(case["facets"]) > 1:
        for f in case["facets"]:
            yield {**case, "facets": [f]}
    B = len(case["X"])
    if B > 1 and case["family"] not in ("norm_nonstatio",):
        for drop in range(B):
            yield {**case, "X": case["X"][:drop] + case["X"][drop + 1:]}
    # zero out feature coefficients one axis / feature at a time
    coef = case["coef"]
    for k in range(len(coef)):
        for c in range(len(coef[k])):
            for e in range(len(coef[k][c])):
                if coef[k][c][e] not in (0, 1):
                    new = [[list(r) for r in ax] for ax in coef]
                    new[k][c][e] = 1 if e == 0 else 0
                    yield {**case, "coef": new}


def widen(rng, bad_cases):
    out = []
    for c in bad_cases:
        for B in (1, 2, 3, 4):
            if c["family"] in ("ic", "norm_statio", "facet_mean") and B == 3:
                continue
            if c["family"] == "norm_nonstatio":
                continue
            n = dict(c)
            n["coef"] = _coef(rng, c["D"], c["R"] * c["M"], c["deg"])
            n["X"] = _batch(rng, B, c["D"])
            out.append(n)
    return out


# ------------------------------------------------------------------------------------------
# implementation side
# ------------------------------------------------------------------------------------------
_CACHE = {}


def _polyfeat_cls():
    if "cls" not in _CACHE:
        import equinox as eqx
        import jax.numpy as jnp

        class PolyFeat(eqx.Module):
            """same call signature as `jinns.utils._spinn._SPINN.__call__(t, x)`: returns (d, r*m);
            sub-network k is the vector of polynomials sum_e coef[k, c, e] z^e of the k-th input coordinate"""
            coef: jnp.ndarray

            def __call__(self, t, x):
                if t is not None:
                    dimensions = jnp.concatenate([t, x.flatten()], axis=0)
                else:
                    dimensions = jnp.concatenate([x.flatten()], axis=0)
                outputs = []
                for k in range(self.coef.shape[0]):
                    z = dimensions[k]
                    pw = [jnp.ones((), dtype=z.dtype)]
                    for _ in range(self.coef.shape[2] - 1):
                        pw.append(pw[-1] * z)
                    outputs.append(self.coef[k] @ jnp.stack(pw))
                return jnp.asarray(outputs)

        _CACHE["cls"] = PolyFeat
    return _CACHE["cls"]


def _nets(time, D, R, M, deg):
    """(spinn, spinn params template, pinn twin, pinn params template, exps of the twin's basis)"""
    key = ("nets", time, D, R, M, deg)
    if key not in _CACHE:
        import jax.numpy as jnp
        from jinns.utils._spinn import SPINN
        from harness.polynet import make_pinn

        eq_type = "nonstatio_PDE" if time else "statio_PDE"
        sp = SPINN(spinn_mlp=_polyfeat_cls()(coef=jnp.zeros((D, R * M, deg + 1))), d=D, r=R, eq_type=eq_type, m=M)
        exps = list(itertools.product(range(deg + 1), repeat=D))
        full = P(D, {e: 1 for e in exps})
        pinn = make_pinn([full] * M, eq_type)
        _CACHE[key] = (sp, sp.init_params(), pinn, pinn.init_params())
    return _CACHE[key]


def _twin_coef(coef, R, M, exps):
    """coefficient of the monomial `e` in output m of the twin: sum_r prod_k coef[k][m R + r][e_k]"""
    out = []
    for m in range(M):
        row = []
        for e in exps:
            tot = 0
            for r in range(R):
                pr = 1
                for k, ek in enumerate(e):
                    pr *= coef[k][m * R + r][ek]
                tot += pr
            row.append(float(tot))
        out.append(row)
    return out


def _set(template, arr):
    import equinox as eqx

    return eqx.tree_at(lambda n: n.coef, template, arr)


def _polyfun(polys_json, nv, split_time, drop_axis=False):
    """a user function (boundary / initial condition) evaluating exact integer polynomials on the last axis;
    `split_time`: signature f(t, x), else f(x)"""
    import jax.numpy as jnp

    polys = [P(nv, {tuple(e): Fraction(c) for c, e in pj}) for pj in polys_json]

    def ev(z):
        outs = []
        for p in polys:
            tot = jnp.zeros(z.shape[:-1], dtype=z.dtype)
            for e, c in p.c.items():
                t = jnp.ones(z.shape[:-1], dtype=z.dtype) * float(c)
                for k, ek in enumerate(e):
                    for _ in range(ek):
                        t = t * z[..., k]
                tot = tot + t
            outs.append(tot)
        # drop_axis: the documented other way of writing a one-component function (no trailing component axis)
        return outs[0] if drop_axis else jnp.stack(outs, axis=-1)

    if split_time:
        return lambda t, x: ev(jnp.concatenate([t, x], axis=-1))
    return ev


def _grid_points(X):
    """the points of the tensor grid of the columns of X, row-major, as exact Fractions"""
    B, D = len(X), len(X[0])
    cols = [[Fraction(X[b][k]) for b in range(B)] for k in range(D)]
    return [list(p) for p in itertools.product(*cols)]


def _flat(a, ncomp_axis=True):
    import numpy as np
    from harness import core

    a = np.asarray(a)
    if ncomp_axis:
        a = a.reshape(-1, a.shape[-1])
    else:
        a = a.reshape(-1, 1)
    return [core.qlist(r) for r in a]


def _jit(key, make):
    import jax

    if key not in _CACHE:
        _CACHE[key] = jax.jit(make())
    return _CACHE[key]


def _try(fn):
    from harness import core

    try:
        return fn(), None
    except (NotImplementedError, ValueError, TypeError, AssertionError, IndexError, RuntimeError) as e:
        return None, core.err_kind(e)


def run_impl(case):
    import jax
    import jax.numpy as jnp
    import numpy as np
    from harness import core
    from jinns.parameters._params import Params, ParamsDict

    fam, time, D, R, M, deg = case["family"], case["time"], case["D"], case["R"], case["M"], case["deg"]
    sp, sp0, pinn, pn0 = _nets(time, D, R, M, deg)
    exps = list(itertools.product(range(deg + 1), repeat=D))
    cs = jnp.asarray(case["coef"], dtype=jnp.float64)
    cp = jnp.asarray(_twin_coef(case["coef"], R, M, exps), dtype=jnp.float64)
    X = jnp.asarray([[float(Fraction(v)) for v in row] for row in case["X"]], dtype=jnp.float64)
    B = X.shape[0]
    static = (fam, time, D, R, M, deg, B)
    results = []

    def split(Z):
        return (Z[:, 0:1], Z[:, 1:]) if time else (None, Z)

    def rec(label, fwd, ferr, rev, rerr, pts=None, scalar=False):
        r = {"label": label}
        if ferr:
            r["fwd_error"] = ferr
        elif scalar:
            r["fwd"] = core.qstr(np.asarray(fwd).reshape(()))
        else:
            r["fwd"] = fwd
        if rerr:
            r["rev_error"] = rerr
        elif scalar:
            r["rev"] = core.qstr(np.asarray(rev).reshape(()))
        else:
            r["rev"] = [[[_q(v) for v in p], vals] for p, vals in zip(pts, rev)]
        results.append(r)

    if fam in ("ops", "residual"):
        from jinns.loss import (_div_fwd, _div_rev, _laplacian_fwd, _laplacian_rev, _vectorial_laplacian,
                                BurgerEquation, FisherKPP, OU_FPENonStatioLoss2D, MassConservation2DStatio,
                                NavierStokes2DStatio)
        from jinns.loss._operators import _u_dot_nabla_times_u_fwd, _u_dot_nabla_times_u_rev

        pts_q = _grid_points(case["X"])
        PTS = jnp.asarray([[float(v) for v in p] for p in pts_q], dtype=jnp.float64)
        eqp = {}
        todo = case["ops"] if fam == "ops" else [case["name"]]
        if fam == "residual":
            Tmax = float(Fraction(case["Tmax"]))
            eqp = {"nu": jnp.asarray(float(Fraction(case["nu"]))), "D": jnp.asarray(float(Fraction(case["Dc"]))),
                   "r": jnp.asarray(float(Fraction(case["r"]))), "g": jnp.asarray(float(Fraction(case["g"]))),
                   "alpha": jnp.asarray([float(Fraction(v)) for v in case["alpha"]]),
                   "mu": jnp.asarray([float(Fraction(v)) for v in case["mu"]]),
                   "sigma": jnp.asarray([float(Fraction(v)) for v in case["sigma"]])}
        else:
            eqp = {"nu": jnp.asarray(float(Fraction(case["nu"]))), "rho": jnp.asarray(float(Fraction(case["rho"])))}
            Tmax = 1.0
        if fam == "ops" and ("ns" in todo):
            spp, spp0, pinnp, pnp0 = _nets(time, D, case["R_p"], 1, deg)
            csp = jnp.asarray(case["coef_p"], dtype=jnp.float64)
            cpp = jnp.asarray(_twin_coef(case["coef_p"], case["R_p"], 1, exps), dtype=jnp.float64)
        for op in todo:
            def fwd_fn(op=op):
                def f(cs, X, eqp, *extra):
                    t, x = split(X)
                    params = Params(nn_params=_set(sp0, cs), eq_params=eqp)
                    if op == "net":
                        return sp(t, x, params) if time else sp(x, params)
                    if op == "lap":
                        return _laplacian_fwd(t, x, sp, params)[..., None]
                    if op == "div":
                        return _div_fwd(t, x, sp, params)[..., None]
                    if op == "veclap":
                        return jnp.moveaxis(_vectorial_laplacian(t, x, sp, params, u_vec_ndim=M), 0, -1)
                    if op == "adv":
                        return _u_dot_nabla_times_u_fwd(t, x, sp, params)
                    if op == "mass":
                        pd = ParamsDict(nn_params={"u": _set(sp0, cs)}, eq_params=eqp)
                        return MassConservation2DStatio(nn_key="u").evaluate(x, {"u": sp}, pd)
                    if op == "ns":
                        pd = ParamsDict(nn_params={"u": _set(sp0, cs), "p": _set(spp0, extra[0])}, eq_params=eqp)
                        return NavierStokes2DStatio(u_key="u", p_key="p").evaluate(x, {"u": sp, "p": spp}, pd)
                    if op == "burgers":
                        return BurgerEquation(Tmax=Tmax).evaluate(t, x, sp, params)
                    if op == "fisher":
                        if case.get("het_r") is not None:
                            # r heterogeneous in space (1-D): the separable version receives the batch column
                            hc = float(Fraction(case["het_r"]))
                            het = {"D": None, "g": None, "r": lambda t_, x_, u_, p_: p_.eq_params["r"] * (1.0 + hc * x_[:, 0])}
                            return FisherKPP(Tmax=Tmax, eq_params_heterogeneity=het).evaluate(t, x, sp, params)
                        return FisherKPP(Tmax=Tmax).evaluate(t, x, sp, params)
                    if op == "ou":
                        return OU_FPENonStatioLoss2D(Tmax=Tmax).evaluate(t, x, sp, params)
                    raise ValueError(op)
                return f

            def rev_fn(op=op):
                def one(cp, z, eqp, *extra):
                    t, x = (z[0:1], z[1:]) if time else (None, z)
                    params = Params(nn_params=_set(pn0, cp), eq_params=eqp)
                    if op == "net":
                        return pinn(t, x, params) if time else pinn(x, params)
                    if op == "lap":
                        return jnp.atleast_1d(_laplacian_rev(t, x, pinn, params))
                    if op == "div":
                        return jnp.atleast_1d(_div_rev(t, x, pinn, params))
                    if op == "veclap":
                        return _vectorial_laplacian(t, x, pinn, params, u_vec_ndim=M)
                    if op == "adv":
                        return _u_dot_nabla_times_u_rev(t, x, pinn, params)
                    if op == "mass":
                        pd = ParamsDict(nn_params={"u": _set(pn0, cp)}, eq_params=eqp)
                        return MassConservation2DStatio(nn_key="u").evaluate(x, {"u": pinn}, pd)
                    if op == "ns":
                        pd = ParamsDict(nn_params={"u": _set(pn0, cp), "p": _set(pnp0, extra[0])}, eq_params=eqp)
                        return NavierStokes2DStatio(u_key="u", p_key="p").evaluate(x, {"u": pinn, "p": pinnp}, pd)
                    if op == "burgers":
                        return BurgerEquation(Tmax=Tmax).evaluate(t, x, pinn, params)
                    if op == "fisher":
                        if case.get("het_r") is not None:
                            hc = float(Fraction(case["het_r"]))
                            het = {"D": None, "g": None, "r": lambda t_, x_, u_, p_: p_.eq_params["r"] * (1.0 + hc * x_[0])}
                            return FisherKPP(Tmax=Tmax, eq_params_heterogeneity=het).evaluate(t, x, pinn, params)
                        return FisherKPP(Tmax=Tmax).evaluate(t, x, pinn, params)
                    if op == "ou":
                        return OU_FPENonStatioLoss2D(Tmax=Tmax).evaluate(t, x, pinn, params)
                    raise ValueError(op)
                return lambda cp, Z, eqp, *extra: jax.vmap(lambda z: one(cp, z, eqp, *extra))(Z)

            tm = (Tmax, case.get("het_r")) if fam == "residual" else None
            ff = _jit(("fwd", op, tm) + static, fwd_fn)
            rf = _jit(("rev", op, tm) + static, rev_fn)
            ex_f = (csp,) if op == "ns" else ()
            ex_r = (cpp,) if op == "ns" else ()
            fwd, ferr = _try(lambda: _flat(ff(cs, X, eqp, *ex_f)))
            rev, rerr = _try(lambda: _flat(rf(cp, PTS, eqp, *ex_r)))
            rec(op, fwd, ferr, rev, rerr, pts_q)
        return {"results": results}

    params_s = Params(nn_params=_set(sp0, cs), eq_params={})
    params_p = Params(nn_params=_set(pn0, cp), eq_params={})

    if fam in ("boundary", "facet_mean"):
        from jinns.data._Batchs import PDEStatioBatch, PDENonStatioBatch
        from jinns.loss._boundary_conditions import _compute_boundary_loss
        from jinns.loss._loss_utils import boundary_condition_apply

        dx = case["dx"]
        nf = 2 * dx
        pts_q = _grid_points(case["X"])
        PTS = jnp.asarray([[float(v) for v in p] for p in pts_q], dtype=jnp.float64)
        facets = case["facets"] if fam == "boundary" else [case["facet"]]
        for facet in facets:
            # the facet under test carries the batch; the other facets carry shifted copies
            bb = jnp.stack([X if k == facet else X + (k + 1) for k in range(nf)], axis=-1)
            bp = jnp.stack([PTS if k == facet else PTS + (k + 1) for k in range(nf)], axis=-1)
            if time:
                batch_s = PDENonStatioBatch(times_x_inside_batch=X, times_x_border_batch=bb)
                batch_p = PDENonStatioBatch(times_x_inside_batch=PTS, times_x_border_batch=bp)
            else:
                batch_s = PDEStatioBatch(inside_batch=X, border_batch=bb)
                batch_p = PDEStatioBatch(inside_batch=PTS, border_batch=bp)
            if fam == "boundary":
                if case.get("f_float") == "arr":     # a constant returned as a 0-d array
                    f = (lambda t, x: jnp.asarray(0.0)) if time else (lambda x: jnp.asarray(0.0))
                elif case.get("f_float"):
                    f = (lambda t, x: 0.0) if time else (lambda x: 0.0)
                else:
                    f = _polyfun(case["f"], D, time)
                dim = jnp.s_[case["dim"][0]:case["dim"][1]]
                fwd, ferr = _try(lambda: _flat(_compute_boundary_loss(case["bkind"], f, batch_s, sp, params_s, facet, dim),
                                               ncomp_axis=False))
                rev, rerr = _try(lambda: _flat(_compute_boundary_loss(case["bkind"], f, batch_p, pinn, params_p, facet,
                                                                      dim), ncomp_axis=False))
                rec(f"{case['bkind']}:{facet}", fwd, ferr, rev, rerr, pts_q)
            else:
                names = ["xmin", "xmax", "ymin", "ymax"][:nf]
                f = _polyfun(case["f"], D, time)
                w = float(Fraction(case["w"]))
                cond = {n: ("dirichlet" if k == facet else None) for k, n in enumerate(names)}
                fun = {n: (f if k == facet else None) for k, n in enumerate(names)}
                dims = {n: (jnp.s_[0:1] if k == facet else None) for k, n in enumerate(names)}
                fwd, ferr = _try(lambda: boundary_condition_apply(sp, batch_s, params_s, fun, cond, dims, w))
                rev, rerr = _try(lambda: boundary_condition_apply(pinn, batch_p, params_p, fun, cond, dims, w))
                rec(f"facet_mean:{facet}", fwd, ferr, rev, rerr, scalar=True)
        return {"results": results}

    from jinns.loss._loss_utils import initial_condition_apply, normalization_loss_apply

    if fam == "ic":
        Xo = X[:, 1:]
        pts_q = _grid_points([row[1:] for row in case["X"]])
        PTS = jnp.asarray([[float(v) for v in p] for p in pts_q], dtype=jnp.float64)
        fpoly = [[[c, e[1:]] for c, e in pj] for pj in case["f"]]
        f = _polyfun(fpoly, D - 1, False, drop_axis=bool(case.get("f_drop")) and M == 1)
        w = float(Fraction(case["w"]))
        fwd, ferr = _try(lambda: initial_condition_apply(sp, Xo, params_s, (0, None), f, Xo.shape[0], w))
        rev, rerr = _try(lambda: initial_condition_apply(pinn, PTS, params_p, (0, None), f, PTS.shape[0], w))
        rec("ic", fwd, ferr, rev, rerr, scalar=True)
    elif fam == "norm_statio":
        pts_q = _grid_points(case["X"])
        PTS = jnp.asarray([[float(v) for v in p] for p in pts_q], dtype=jnp.float64)
        L, w = float(Fraction(case["L"])), float(Fraction(case["w"]))
        fwd, ferr = _try(lambda: normalization_loss_apply(sp, (X,), params_s, (0, None), L, w))
        rev, rerr = _try(lambda: normalization_loss_apply(pinn, (PTS,), params_p, (0, None), L, w))
        rec("norm_statio", fwd, ferr, rev, rerr, scalar=True)
    elif fam == "norm_nonstatio":
        pts_q = _grid_points(case["X"])
        PTS = jnp.asarray([[float(v) for v in p] for p in pts_q], dtype=jnp.float64)
        T = jnp.asarray([[float(Fraction(t))] for t in case["T"]], dtype=jnp.float64)
        L, w = float(Fraction(case["L"])), float(Fraction(case["w"]))
        fwd, ferr = _try(lambda: normalization_loss_apply(sp, (T, X), params_s, (0, 0, None), L, w))
        rev, rerr = _try(lambda: normalization_loss_apply(pinn, (T, PTS), params_p, (0, 0, None), L, w))
        rec("norm_nonstatio", fwd, ferr, rev, rerr, scalar=True)
    else:
        raise ValueError(fam)
    return {"results": results}


# ------------------------------------------------------------------------------------------
# model side and verdict
# ------------------------------------------------------------------------------------------
def _shift(pj):
    """polynomial in (x_0, ..) -> the same in (t, x_0, ..)"""
    return [[c, [0] + list(e)] for c, e in pj]


def _req(case, r):
    fam, time = case["family"], case["time"]
    base = {"op": "c11", "time": time, "D": case["D"], "R": case["R"], "M": case["M"], "coef": case["coef"],
            "X": case["X"]}
    lab = r["label"]
    if fam in ("ops", "residual"):
        base.update({"kind": "grid", "fwd": r["fwd"], "rev": r["rev"]})
        dx = case["D"] - (1 if time else 0)
        if lab == "net":
            base["what"] = "net"
        elif lab in ("lap", "div", "veclap", "adv", "ns", "mass"):
            base.update({"what": "op", "which": "div" if lab == "mass" else lab, "d": dx, "m": case["M"],
                         "nu": case["nu"], "rho": case["rho"], "coef_p": case["coef_p"], "R_p": case["R_p"]})
        elif case.get("het_r") is not None:
            base["what"] = "holds_only"
        else:
            base.update({"what": "residual", "name": lab, "d": dx, "Tmax": case["Tmax"], "nu": case["nu"],
                         "Dc": case["Dc"], "r": case["r"], "g": case["g"], "alpha": case["alpha"], "mu": case["mu"],
                         "sigma": case["sigma"]})
        return base
    fj = case.get("f")
    if fj is not None and not time:
        fj = [_shift(pj) for pj in fj]
    if fam == "boundary":
        facet = int(lab.split(":")[1])
        base.update({"kind": "grid", "fwd": r["fwd"], "rev": r["rev"], "dim_lo": case["dim"][0],
                     "dim_hi": case["dim"][1], "dx": case["dx"], "facet": facet})
        zero = [[] for _ in fj]
        if case["bkind"] == "dirichlet":
            base.update({"what": "dirichlet", "f": zero if case.get("f_float") else fj})
        else:
            base.update({"what": "neumann", "f": [] if case.get("f_float") else fj[0]})
        return base
    base.update({"kind": "scalar", "fwd": r["fwd"], "rev": r["rev"], "w": case.get("w", "1"), "L": case.get("L", "1")})
    if fam == "ic":
        base.update({"what": "ic", "f": fj, "n": len(case["X"]), "X": [row[1:] for row in case["X"]]})
    elif fam == "norm_statio":
        base.update({"what": "norm_statio"})
    elif fam == "norm_nonstatio":
        base.update({"what": "norm_nonstatio", "T": case["T"], "rep": len(case["X"]) // len(case["T"])})
    elif fam == "facet_mean":
        base.update({"what": "facet_mean", "f": fj, "dim_lo": 0, "dim_hi": 1})
    return base


def lean_request(case, obs):
    reqs = [_req(case, r) for r in obs["results"] if "fwd_error" not in r and "rev_error" not in r]
    return reqs or None


def judge(case, obs, answers):
    answers = answers or []
    k = 0
    disagree = None
    for r in obs["results"]:
        fe, re_ = r.get("fwd_error"), r.get("rev_error")
        if fe or re_:
            if fe and not re_:
                return {"status": "violation", "clause": "forward-mode-version-rejects-what-the-reverse-mode-version-accepts",
                        "label": r["label"], "error": fe}
            if re_ and not fe:
                return {"status": "violation", "clause": "reverse-mode-version-rejects-what-the-forward-mode-version-accepts",
                        "label": r["label"], "error": re_}
            # both reject: the model must reject too (only the Neumann term in > 2 space dimensions; not generated)
            disagree = disagree or {"status": "disagree", "clause": "both-versions-reject", "label": r["label"]}
            continue
        a = answers[k]
        k += 1
        if not a["holds"]:
            return {"status": "violation", "clause": a["clause"], "label": r["label"]}
        if case.get("het_r") is not None:
            continue
        if not a["agree"] and disagree is None:
            disagree = {"status": "disagree", "clause": "model-differs", "label": r["label"],
                        "detail": {x: a.get(x) for x in ("model_rejects", "agree_fwd", "agree_rev", "model_fwd", "model_rev")}}
    return disagree or {"status": "ok", "clause": None}


def nontrivial(case, obs):
    if len(case["X"]) < 2 or case["D"] < 2:
        return False
    for r in obs["results"]:
        if "fwd" not in r:
            continue
        if isinstance(r["fwd"], str):
            if Fraction(r["fwd"]) != 0:
                return True
            continue
        vals = {tuple(e) for e in r["fwd"]}
        if len(vals) > 1:
            return True
    return False


def tags(case, obs):
    out = (["heterogeneous_r"] if case.get("het_r") is not None else []) + [f"family={case['family']}", "time" if case["time"] else "no_time", f"D={case['D']}", f"B={len(case['X'])}",
           f"M={case['M']}", f"R={case['R']}"]
    for r in obs["results"]:
        out.append(f"op={r['label'].split(':')[0]}")
        if "fwd_error" in r or "rev_error" in r:
            out.append("rejected")
    out.append("ulp_rule_cases=0")
    return out
