"""
C09 — mini-batching permutes the point set and serves each point once per epoch.
Correspondence: real generators of jinns.data, every cursor they own, against
JinnsModel/Minibatch.lean (PRNG = oracle: the store observed after each request).
"""
from __future__ import annotations

import itertools

PROP = "C09"
LEVEL_TEXT = ("Lean 4 theorems, for every store, batch size 0 < b <= n, PRNG oracle sequence and history length: "
              "the store stays a permutation of the initial one; an epoch is exactly ceil(n/b) requests; its batches "
              "concatenate to the store when b | n and cover it otherwise; a reshuffle happens exactly when all points "
              "have been served.  The model is tied to /repo on every run by exact differential execution of every "
              "cursor of every generator kind (all (n, b) up to 8 quick / 12 thorough), and Holds.C09 is evaluated on "
              "the implementation's own traces.")
LEVEL_NOTE = ("Trusted: Lean kernel + {propext, Classical.choice, Quot.sound}; the hand-written cursor model's tie to "
              "the code is differential (sees the generated (kind, n, b) scopes); the PRNG is an oracle with the "
              "contract 'choice(replace=False) permutes' checked on each observed reshuffle; int32 cursor arithmetic is "
              "modelled with unbounded naturals under the hypothesis n <= 2^31 - 2.")
TECHNIQUE = "Lean 4 proof (induction over request histories, epoch invariant) + differential correspondence with PRNG as oracle"
THEOREMS = [
    "Jinns.Minibatch.first_request_resets",
    "Jinns.Minibatch.resets_iff_last",
    "Jinns.Minibatch.store_perm_after_any_history",
    "Jinns.Minibatch.batch_shape_and_membership",
    "Jinns.Minibatch.run_within_epoch",
    "Jinns.Minibatch.epoch_structure",
    "Jinns.Minibatch.epoch_exact_of_dvd",
    "Jinns.Minibatch.epoch_nodup_of_dvd",
    "Jinns.Minibatch.epoch_covers",
    "Jinns.Minibatch.holdsC09_model",
    "Jinns.Minibatch.holdsC09Active_self",
    "Jinns.Minibatch.holdsC09Active_model",
    "Jinns.Minibatch.holdsC09Active_model_of_used",
    "Jinns.Minibatch.epoch_structureA",
    "Jinns.Minibatch.active_served_exactly_once_of_dvd",
    "Jinns.Minibatch.active_not_served_twice_of_dvd",
    "Jinns.Minibatch.active_covered",
    "Jinns.Minibatch.inactive_never_served_of_dvd",
]
LEAN_MODULES = ["JinnsProofs.C09", "JinnsProofs.C09Holds", "JinnsProofs.C09Active"]
RULE = ("cases = (generator kind, n, b, number of requests); every cursor owned by the generator is traced "
        "(store snapshot, PRNG-key-consumed flag, batch) with points labelled by their row in the initial store; "
        "each scope is also run with one jitted get_batch (all non-stationary cases, small scopes of the others); "
        "non-trivial = the history crosses at least one epoch boundary after the first request (a second reshuffle "
        "is observed) and the points of the store are pairwise distinct; distinct = distinct case dicts"
        " Plus: RAR-configured scopes of 40 and 64 active points in the default precision, nt_start given without RAR, and one whole epoch of a 40000-row observation table counted arithmetically (no Lean evaluation for that scope).")
ASSUMPTIONS = [
    "generators configured for RAR (n_eff < n, kinds *_rar): the clauses are evaluated relative to the active points "
    "(Holds.holdsC09Active, equal to Holds.C09 when every point is active: holdsC09Active_self); the C09 theorems are "
    "stated for n_eff = n, the cursor with n_eff < n is covered by the theorems of JinnsProofs.C17 (draw_active_perm, "
    "gen_getBatch_inv)",
    "jax.random.choice(replace=False) returns a permutation of its input (validated on every observed reshuffle: "
    "oracle_contract)",
    "a reshuffle is observed as 'the generator's PRNG key changed'",
    "stores fit in int32 (n <= 2^31 - 2), as the implementation's initial cursor assumes",
]
EXHAUSTIVE = {"quick": True, "thorough": True}

KINDS = ["ode", "statio", "statio_border", "nonstatio", "obs", "param"]


def _req(n, b):
    return 3 * (-(-n // b)) + 2


def gen_cases(rng, tier):
    nmax = 8 if tier == "quick" else 12
    cases = []
    for kind in KINDS:
        if kind == "nonstatio":
            continue
        for n in range(1, nmax + 1):
            for b in range(1, n + 1):
                if tier == "quick" and kind == "statio_border" and n > 5:
                    continue
                cases.append({"kind": kind, "n": n, "b": b, "requests": _req(n, b),
                              "seed": rng.randrange(1 << 30)})
    # non-stationary generator: three cursors with their OWN sizes (times, omega, border rows per facet).
    # Each cursor in turn sweeps all (n, b) of the scope while the two others take random sizes.
    lim = 5 if tier == "quick" else 8
    for target in ("times", "omega", "border"):
        for n in range(1, lim + 1):
            for b in range(1, n + 1):
                sizes = {}
                for cur in ("times", "omega", "border"):
                    if cur == target:
                        sizes[cur] = (n, b)
                    else:
                        nn = rng.randint(1, 5)
                        sizes[cur] = (nn, rng.randint(1, nn))
                cases.append({"kind": "nonstatio", "target": target, "n": n, "b": b,
                              "sizes": {k: list(v) for k, v in sizes.items()},
                              "requests": max(_req(*v) for v in sizes.values()),
                              "seed": rng.randrange(1 << 30)})
    # generators configured for residual-adaptive refinement (fresh: no refinement step yet): the cursor works on
    # the n_start ACTIVE points of a larger pre-allocated store, whatever the RAR schedule parameters are
    lim_r = 5 if tier == "quick" else 8
    for kind in ("ode_rar", "statio_rar"):
        for ns in range(1, lim_r + 1):
            for b in range(1, ns + 1):
                cases.append({"kind": kind, "n": ns, "b": b, "extra": rng.randint(1, 4),
                              "update_every": rng.randint(1, 4), "selected": rng.randint(1, 3),
                              "requests": _req(ns, b), "seed": rng.randrange(1 << 30)})
    # the same histories under jax.jit: every non-stationary case, and the small scopes of the other kinds
    jitted = [{**c, "jit": True} for c in cases
              if c["kind"] == "nonstatio" or c["n"] <= (4 if tier == "quick" else 6)]
    # many active points in the library's default precision: a weighted shuffle written with powers of uniforms
    # underflows in float32 from a few dozen active points on (zero-probability slots must still come last)
    big = [{"kind": kind, "n": ns, "b": b, "extra": 6, "update_every": 1, "selected": 2, "requests": _req(ns, b),
            "seed": rng.randrange(1 << 30), "jit": True}
           for kind in ("ode_rar", "statio_rar") for (ns, b) in ((40, 8), (64, 16))]
    # a large observation table (index stores of tens of thousands of rows: integer width of the row indices)
    large = [{"kind": "obs_large", "n": n, "b": b, "requests": n // b, "seed": rng.randrange(1 << 30)}
             for (n, b) in ((40000, 4000),) + (() if tier == "quick" else ((65000, 5000), (33000, 3000)))]
    return cases + jitted + big + large


def shrink_candidates(case):
    if case["kind"] == "obs_large":
        return
    if case["kind"] == "nonstatio":
        if case["requests"] > 2:
            yield {**case, "requests": case["requests"] // 2}
            yield {**case, "requests": case["requests"] - 1}
        return
    for k in ("requests", "n", "b"):
        v = case[k]
        for nv in sorted({v // 2, v - 1}):
            if nv >= 1 and nv != v:
                c = dict(case)
                c[k] = nv
                if c["b"] <= c["n"]:
                    yield c


def _label_fn(rows):
    import numpy as np

    table = {}
    for i, r in enumerate(rows):
        table.setdefault(np.asarray(r).tobytes(), i)
    distinct = len(table) == len(rows)

    def lab(r):
        return table.get(np.asarray(r).tobytes(), 10**6)

    return lab, distinct


def _run_large(case):
    """one whole epoch of a large observation loader, judged on the multiset of served rows (the Lean predicate
    works on explicit lists: this scope is checked arithmetically instead -- every row of the table exactly once
    per epoch when b divides n, input and value of a served row from the same table row)"""
    import jax
    import jax.numpy as jnp
    import numpy as np
    from jinns.data._DataGenerators import DataGeneratorObservations

    n, b = case["n"], case["b"]
    ids = jnp.arange(n, dtype=jnp.float64)[:, None]
    g = DataGeneratorObservations(jax.random.PRNGKey(case["seed"]), b, ids, 2 * ids)
    served, aligned = [], True
    for _ in range(n // b):
        g, bt = g.get_batch()
        x = np.asarray(bt["pinn_in"]).reshape(-1)
        v = np.asarray(bt["val"]).reshape(-1)
        aligned = aligned and bool(np.all(v == 2 * x))
        served.append(x.astype(np.int64))
    served = np.concatenate(served)
    return {"large": {"served": int(served.size), "distinct": int(np.unique(served).size), "min": int(served.min()),
                      "max": int(served.max()), "aligned": aligned}}


def run_impl(case):
    import jax

    if case["kind"] == "obs_large":
        return _run_large(case)

    # jitted cases run in the library's DEFAULT precision (x32: cursors are int32, as in a user's
    # session); the workers otherwise enable x64
    if case.get("jit"):
        jax.config.update("jax_enable_x64", False)
        try:
            return _run_impl(case)
        finally:
            jax.config.update("jax_enable_x64", True)
    return _run_impl(case)


def _run_impl(case):
    import jax
    import jax.numpy as jnp
    import numpy as np
    from jinns.data._DataGenerators import (
        DataGeneratorODE, CubicMeshPDEStatio, CubicMeshPDENonStatio, DataGeneratorObservations,
        DataGeneratorParameter,
    )

    kind, n, b, R = case["kind"], case["n"], case["b"], case["requests"]
    key = jax.random.PRNGKey(case["seed"])
    # cursors: name -> (get_store(gen), get_key(gen), get_batch_rows(batch), b, n_rows)
    if kind == "ode":
        # (`nt_start` is documented as ignored without RAR: given anyway in every other case)
        kw = {"nt_start": max(1, n // 2)} if case["seed"] % 2 == 0 else {}
        g = DataGeneratorODE(key, n, -1.0, 3.0, b, **kw)
        cursors = {"times": (lambda g: g.times, lambda g: g.key, lambda bt: bt.temporal_batch)}
    elif kind == "statio":
        g = CubicMeshPDEStatio(key=key, n=n, nb=None, omega_batch_size=b, omega_border_batch_size=None, dim=2,
                               min_pts=(-1.0, 0.0), max_pts=(1.0, 2.0))
        cursors = {"omega": (lambda g: g.omega, lambda g: g.key, lambda bt: bt.inside_batch)}
    elif kind == "statio_border":
        g = CubicMeshPDEStatio(key=key, n=2, nb=4 * n, omega_batch_size=1, omega_border_batch_size=b, dim=2,
                               min_pts=(-1.0, 0.0), max_pts=(1.0, 2.0))
        cursors = {"border": (lambda g: g.omega_border, None, lambda bt: bt.border_batch)}
    elif kind == "nonstatio":
        (nt, bt), (no, bo), (nbf, bb) = (case["sizes"][k] for k in ("times", "omega", "border"))
        g = CubicMeshPDENonStatio(key=key, n=no, nb=4 * nbf, nt=nt, omega_batch_size=bo,
                                  omega_border_batch_size=bb, temporal_batch_size=bt, dim=2,
                                  min_pts=(-1.0, 0.0), max_pts=(1.0, 2.0), tmin=0.0, tmax=2.0,
                                  cartesian_product=True)
        # decode the factors of the (time-major) cartesian product returned by get_batch
        cursors = {
            "times": (lambda g: g.times, None, lambda bt_: bt_.times_x_inside_batch[::bo, 0]),
            "omega": (lambda g: g.omega, None, lambda bt_: bt_.times_x_inside_batch[:bo, 1:]),
            "border": (lambda g: g.omega_border, None, lambda bt_: bt_.times_x_border_batch[:bb, 1:, :]),
        }
        bsizes = {"times": bt, "omega": bo, "border": bb}
    elif kind in ("ode_rar", "statio_rar"):
        ntot = n + case["extra"]
        if kind == "ode_rar":
            rar = {"start_iter": 0, "update_every": case["update_every"], "sample_size_times": 4,
                   "selected_sample_size_times": case["selected"]}
            g = DataGeneratorODE(key, ntot, -1.0, 3.0, b, rar_parameters=rar, nt_start=n)
            cursors = {"times": (lambda g: g.times, lambda g: g.key, lambda bt: bt.temporal_batch)}
        else:
            rar = {"start_iter": 0, "update_every": case["update_every"], "sample_size_omega": 4,
                   "selected_sample_size_omega": case["selected"]}
            g = CubicMeshPDEStatio(key=key, n=ntot, nb=None, omega_batch_size=b, omega_border_batch_size=None,
                                   dim=2, min_pts=(-1.0, 0.0), max_pts=(1.0, 2.0), rar_parameters=rar, n_start=n)
            cursors = {"omega": (lambda g: g.omega, lambda g: g.key, lambda bt: bt.inside_batch)}
    elif kind == "obs":
        rs = np.random.RandomState(case["seed"] % (2**31))
        pin = jnp.asarray(np.arange(n, dtype=float)[:, None] * 2.0 + 1.0)
        val = jnp.asarray(rs.randint(-5, 5, size=(n, 2)).astype(float))
        g = DataGeneratorObservations(key, b, pin, val)
        cursors = {"indices": (lambda g: g.indices, lambda g: g.key, lambda bt: bt["pinn_in"])}
    elif kind == "param":
        g = DataGeneratorParameter(key, n, b, param_ranges={"nu": (0.0, 1.0), "mu": (-2.0, 2.0)})
        cursors = {
            "nu": (lambda g: g.param_n_samples["nu"], lambda g: g.keys["nu"], lambda bt: bt["nu"]),
            "mu": (lambda g: g.param_n_samples["mu"], lambda g: g.keys["mu"], lambda bt: bt["mu"]),
        }
    else:
        raise ValueError(kind)

    labs, traces, prev = {}, {}, {}
    for name, (gs, gk, gb) in cursors.items():
        store = np.asarray(gs(g))
        if kind == "obs":
            rows = np.asarray(g.observed_pinn_in)
            lab, distinct = _label_fn(rows)
            labs[name] = (lambda lab: (lambda r: lab(r)))(lab)
            store0 = [int(i) for i in store]
        else:
            lab, distinct = _label_fn(store)
            labs[name] = lab
            store0 = list(range(len(store)))
        bcur = bsizes[name] if kind == "nonstatio" else b
        traces[name] = {"store0": store0, "b": bcur, "nEff": len(store0), "distinct": distinct, "trace": []}
        if kind in ("ode_rar", "statio_rar"):
            # the active points are the first n_start slots of the initial store
            traces[name]["nEff"] = n
            traces[name]["active"] = store0[:n]
        prev[name] = np.asarray(gs(g)).copy()
    # execution mode: eager, or one jitted get_batch reused for every request (a fresh generator's first
    # draw under jit exercises the int32 arithmetic of the initial cursor)
    step = jax.jit(lambda gg: gg.get_batch()) if case.get("jit") else (lambda gg: gg.get_batch())
    for _ in range(R):
        g, bt = step(g)
        for name, (gs, gk, gb) in cursors.items():
            store = np.asarray(gs(g))
            if kind == "obs":
                store_l = [int(i) for i in store]
            else:
                store_l = [labs[name](r) for r in store]
            batch_l = [labs[name](r) for r in np.asarray(gb(bt))]
            # a reshuffle is observed as: cursor back to 0, or the store changed
            reset = bool(_cursor_of(g, kind, name) == 0) or not np.array_equal(store, prev[name])
            prev[name] = store.copy()
            traces[name]["trace"].append({"store": store_l, "batch": batch_l, "reset": reset})
    return {"traces": traces}


def _cursor_of(g, kind, name):
    if kind in ("ode", "ode_rar"):
        return int(g.curr_time_idx)
    if kind in ("statio", "statio_border", "nonstatio", "statio_rar"):
        return int({"omega": g.curr_omega_idx, "border": g.curr_omega_border_idx,
                    "times": getattr(g, "curr_time_idx", 0)}[name])
    if kind == "obs":
        return int(g.curr_idx)
    return int(g.curr_param_idx[name])


def lean_request(case, obs):
    if case["kind"] == "obs_large":
        return None
    return [{"op": "c09", "store0": t["store0"], "b": t["b"], "nEff": t["nEff"],
             **({"active": t["active"]} if "active" in t else {}),
             "trace": t["trace"]} for _, t in sorted(obs["traces"].items())]


def judge(case, obs, answers):
    if case["kind"] == "obs_large":
        o, n = obs["large"], case["n"]
        if o["distinct"] != n or o["served"] != n or o["min"] != 0 or o["max"] != n - 1:
            return {"status": "violation", "clause": "point-served-twice-or-never-within-an-epoch(large table)", "obs": o}
        if not o["aligned"]:
            return {"status": "violation", "clause": "served-row-not-a-row-of-the-table(large table)", "obs": o}
        return {"status": "ok", "clause": None}
    names = sorted(obs["traces"])
    for name, a in zip(names, answers):
        if not obs["traces"][name]["distinct"]:
            continue
        if not a["holds"]:
            return {"status": "violation", "clause": a["clause"], "cursor": name}
    for name, a in zip(names, answers):
        if not obs["traces"][name]["distinct"]:
            continue
        if not a["oracle_contract"]:
            return {"status": "violation", "clause": "store-not-a-permutation-of-the-initial-store", "cursor": name}
        if not a["agree"]:
            return {"status": "disagree", "clause": "model-trace-differs", "cursor": name,
                    "model_batches": a["model_batches"], "model_resets": a["model_resets"]}
    return {"status": "ok", "clause": None}


def nontrivial(case, obs):
    if case["kind"] == "obs_large":
        return True
    for t in obs["traces"].values():
        if t["distinct"] and sum(1 for r in t["trace"][1:] if r["reset"]) >= 1 and len(t["store0"]) > 1:
            return True
    return False


def tags(case, obs):
    if case["kind"] == "obs_large":
        return [f"kind=obs_large(n={case['n']})"]
    out = [f"kind={case['kind']}", "b_divides_n" if case["n"] % case["b"] == 0 else "b_not_dividing_n",
           "mode=jit,x32" if case.get("jit") else "mode=eager,x64"]
    if case["kind"] == "nonstatio":
        sz = case["sizes"]
        out.append("nonstatio_batch_sizes_" + ("all_equal" if len({tuple(v)[1] for v in sz.values()}) == 1 else "differ"))
    for name, t in obs["traces"].items():
        out.append(f"cursor={name}")
        if not t["distinct"]:
            out.append("duplicate_points(skipped)")
    return out


def widen(rng, bad_cases):
    out = []
    for c in bad_cases:
        if c["kind"] == "nonstatio":
            out.extend(x for x in gen_cases(rng, "thorough") if x["kind"] == "nonstatio")
            continue
        for n, b in itertools.product(range(1, 10), range(1, 10)):
            if b <= n:
                out.append({**c, "n": n, "b": b, "requests": 3 * (-(-n // b)) + 2})
    return out
