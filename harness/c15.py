"""
C15 — observation and parameter loaders keep rows aligned with the user's tables.
Correspondence: real DataGeneratorObservations, DataGeneratorParameter and
DataGeneratorObservationsMultiPINNs against JinnsModel/Loaders.lean.  Tables encode
(table, row, column) in every entry so that alignment is checkable exactly; reshuffles (index
vector / per-key store) and uniform samples are oracle inputs extracted from the implementation.
"""
from __future__ import annotations

import math
from fractions import Fraction

from harness import core

PROP = "C15"
LEVEL_TEXT = ("Lean 4 theorems, for all tables (sizes, column counts, 1-D or 2-D inputs, any number of observed "
              "parameters), batch sizes, PRNG oracles and ALL histories of get_batch: every observation batch is "
              "(IN[idx], VAL[idx], EQ_k[idx]) for ONE list idx of b valid original row numbers, idx being the batch the "
              "C09 cursor serves on the index vector (so C09's epoch theorems govern the served rows); row r of the "
              "batch is row idx[r] of every table; 1-D and column inputs give the same loader; tables of different "
              "lengths or of rank >= 3 are rejected.  Parameter loader: a key with user data takes the user's table "
              "whatever its range / the method / the PRNG; shapes (n,) and (n,1) are accepted and give the same store, "
              "every other shape is rejected; a key without user data gets exactly n samples of its OWN range; every "
              "batch of a key has b rows of that key's own store.  Multi-network loader: one loader per network with "
              "data, entry j of a batch is the aligned batch of network j's loader and is empty exactly for networks "
              "declared without data.  Tied to /repo on every run by exact differential execution; Holds.C15 is "
              "evaluated on the implementation's own batches against the user's tables.")
LEVEL_NOTE = ("Trusted: Lean kernel + {propext, Classical.choice, Quot.sound}; the model's tie to the code is differential "
              "(sizes 1..12, 1..30 draws).  jnp.take / dynamic_slice / tree_map are modelled as list functions.  Runtime "
              "facts stated as contracts and observed, not proved: uniform samples lie in the key's range; "
              "choice(replace=False) permutes; float grid arithmetic (4-ulp rule at the scale of the larger bound, "
              "tag 'grid_ulp_rule').  'Empty entry' for a network without observations is read as 'an entry without "
              "array leaves' (the code returns None there, not {}: the tag 'empty_entry=None' counts it).")
TECHNIQUE = ("Lean 4 proof (refinement of the loaders to the C09 cursor on the index vector / per-key stores, case "
             "analysis of the constructors) + exact differential correspondence with PRNG as oracle")
THEOREMS = [
    "Jinns.Loaders.mkObs_ok",
    "Jinns.Loaders.mkObs_reject",
    "Jinns.Loaders.mkObs_1d_eq_column",
    "Jinns.Loaders.obsNext_tables",
    "Jinns.Loaders.obsRun_eq_map",
    "Jinns.Loaders.batchOf_row",
    "Jinns.Loaders.index_batches_valid",
    "Jinns.Loaders.obs_history",
    "Jinns.Loaders.paramStore_user_priority",
    "Jinns.Loaders.paramStore_shapes",
    "Jinns.Loaders.paramStore_reject_shape",
    "Jinns.Loaders.paramStore_range",
    "Jinns.Loaders.mkParam_reject_batch",
    "Jinns.Loaders.paramStores_ok",
    "Jinns.Loaders.param_history",
    "Jinns.Loaders.param_history_range",
    "Jinns.Loaders.mkNets_ok",
    "Jinns.Loaders.mkMulti_reject",
    "Jinns.Loaders.multiNext_spec",
    "Jinns.Loaders.multi_entry_empty_iff",
    "Jinns.Loaders.multi_entry_aligned",
    "Jinns.Loaders.rowIs_batchOf",
    "Jinns.Loaders.c15ObsBatch_batchOf",
    "Jinns.Loaders.obs_history_holds",
    "Jinns.Loaders.param_history_holds",
    "Jinns.Loaders.param_history_holds_perkey",
    "Jinns.Loaders.param_key_epochs",
    "Jinns.Loaders.multi_history_holds",
    "Jinns.Loaders.paramRecord_length",
    "Jinns.Loaders.paramTrace_length",
    "Jinns.Loaders.multiRun_shape",
]
LEAN_MODULES = ["JinnsProofs.C15", "JinnsProofs.C15Holds"]
RULE = ("cases = an observation loader (table shapes, observed parameters, b, number of get_batch calls), a parameter "
        "loader (per key: range and/or user table with its shape; method; n, b; calls), a multi-network loader (per "
        "network: tables or None), or constructor arguments that must be rejected; entry (table t, row i, column c) of "
        "a table is i + 16 c + 64 t, so a batch row identifies its original row in every table; non-trivial = a "
        "well-formed case with n >= 2 distinct rows, at least two tables gathered (observations) / at least one key "
        "(parameters), and at least one reshuffle after the first request; distinct = distinct case dicts")
ASSUMPTIONS = [
    "jax.random.choice(replace=False) permutes (checked on every observed reshuffle: oracle_contract)",
    "jax.random.uniform(minval, maxval) returns samples in [minval, maxval] (Holds.C15 range clause on every store)",
    "float grid arithmetic is within 4 ulp (at the scale of the larger bound) of the exact grid",
]
EXHAUSTIVE = {"quick": False, "thorough": False}


def _qs(x):
    """exact rational of a finite float; non-finite floats cross the protocol as "nan" / "inf" / "-inf"
    (a non-finite coordinate is an observation - a point outside every domain - not a harness failure)"""
    x = float(x)
    if math.isnan(x):
        return "nan"
    if math.isinf(x):
        return "inf" if x > 0 else "-inf"
    return core.qstr(x)


def _ql(a):
    import numpy as np

    a = np.asarray(a)
    if a.ndim == 0:
        return _qs(a.item())
    return [_ql(x) for x in a]


RANGES = [(0.0, 1.0), (-2.0, 2.0), (-3.0, -1.0), (0.5, 8.0), (-1024.0, 3.0)]


# ------------------------------------------------------------------------------------------------
# table specifications  {"shape": [...], "tid": int, "dup": bool}
# ------------------------------------------------------------------------------------------------
def _table(spec):
    import numpy as np

    shape = tuple(spec["shape"])
    a = np.zeros(shape, dtype=float)
    it = np.nditer(a, flags=["multi_index"], op_flags=["readwrite"])
    for x in it:
        idx = it.multi_index
        row = idx[0] // 2 if spec.get("dup") else idx[0]
        col = idx[1] if len(idx) > 1 else 0
        x[...] = row + 16 * col + 64 * spec["tid"]
    if spec.get("scale"):
        a = a * spec["scale"] + spec.get("shift", 0.0)
    return a


def _tbl_json(a):
    if a is None:
        return None
    return {"shape": list(a.shape), "data": _ql(a) if a.ndim <= 2 and a.size else []}


def _spec(tid, n, kind, cols=1, dup=False):
    shape = {"1d": [n], "2d": [n, cols], "3d": [n, cols, 1]}[kind]
    return {"shape": shape, "tid": tid, "dup": dup}


def _obs_case(rng, n, b, requests, pin_kind=None, val_kind=None, neq=None, dup=False):
    pin_kind = pin_kind or rng.choice(["1d", "2d", "2d"])
    val_kind = val_kind or rng.choice(["1d", "2d"])
    neq = rng.randint(0, 2) if neq is None else neq
    eq = [[name, _spec(3 + i, n, rng.choice(["1d", "2d"]), 1)] for i, name in enumerate(["nu", "alpha"][:neq])]
    rng.shuffle(eq)     # the dict is built in this (insertion) order; pairing must be by key
    return {"kind": "obs", "n": n, "b": b, "requests": requests, "seed": rng.randrange(1 << 30),
            "pin": _spec(1, n, pin_kind, rng.randint(1, 3), dup), "val": _spec(2, n, val_kind, rng.randint(1, 2)),
            "eq": eq}


def _param_case(rng, n, b, method, requests, keys=None):
    if keys is None:
        keys = []
        for i, name in enumerate(["nu", "mu", "kappa"][: rng.randint(1, 3)]):
            mode = rng.choice(["range", "user", "both"])
            k = {"name": name, "range": None, "user": None}
            if mode in ("range", "both"):
                k["range"] = list(rng.choice(RANGES))
            if mode in ("user", "both"):
                k["user"] = {**_spec(5 + i, n, rng.choice(["1d", "2d"]), 1, dup=rng.random() < 0.2),
                             "scale": rng.choice([1.0, 0.5, -0.25]), "shift": rng.choice([0.0, -100.0])}
            keys.append(k)
    ro, uo = list(range(len(keys))), list(range(len(keys)))
    rng.shuffle(ro)
    rng.shuffle(uo)
    return {"kind": "param", "n": n, "b": b, "method": method, "requests": requests, "keys": keys,
            "range_order": ro, "user_order": uo, "seed": rng.randrange(1 << 30)}


def _orders(rng, k):
    out = {}
    for d in ("pin", "val", "eq"):
        o = list(range(k))
        rng.shuffle(o)
        out[d] = o
    return out


def _multi_case(rng, n, b, requests, nnets=None, equal=None):
    nets = []
    equal = (rng.random() < 0.6) if equal is None else equal      # equal sizes: a mix-up cannot raise
    for i, name in enumerate(["u", "v", "w"][: (nnets or rng.randint(2, 3))]):
        if rng.random() < 0.35:
            nets.append({"name": name, "pin": None, "val": None, "eq": []})
        else:
            ni = n if equal else n + rng.choice([0, 0, 1, 3])
            neq = rng.randint(0, 1)
            nets.append({"name": name, "pin": _spec(1 + 10 * i, ni, rng.choice(["1d", "2d"]), rng.randint(1, 2)),
                         "val": _spec(2 + 10 * i, ni, rng.choice(["1d", "2d"]), 1),
                         "eq": [["nu", _spec(3 + 10 * i, ni, "1d", 1)]][:neq]})
    if all(x["pin"] is None for x in nets):
        nets[0] = {"name": nets[0]["name"], "pin": _spec(1, n, "2d", 2), "val": _spec(2, n, "1d", 1), "eq": []}
    return {"kind": "multi", "b": b, "n": n, "requests": requests, "nets": nets, "pin_given": True, "val_given": True,
            "eq_mode": rng.choice(["given", "given", "none"]), "orders": _orders(rng, len(nets)),
            "seed": rng.randrange(1 << 30)}


def _req(rng, n, b, deep):
    q = -(-n // max(b, 1))
    return min(30, q * rng.choice([1, 2, 3] if deep else [1, 2]) + rng.choice([1, 2]))


def gen_cases(rng, tier):
    deep = tier != "quick"
    cases = []
    sizes = range(1, 13) if deep else [1, 2, 3, 4, 5, 7, 8, 12]
    for n in sizes:
        for _ in range(6 if deep else 1):
            b = rng.randint(1, n)
            cases.append(_obs_case(rng, n, b, _req(rng, n, b, deep)))
        b = rng.choice([d for d in range(1, n + 1) if n % d == 0])
        cases.append(_obs_case(rng, n, b, _req(rng, n, b, deep), neq=2))
    cases.append(_obs_case(rng, 6, 2, 7, pin_kind="2d", dup=True, neq=1))
    for n in sizes:
        for method in ("uniform", "grid"):
            for _ in range(4 if deep else 1):
                b = rng.randint(1, n)
                cases.append(_param_case(rng, n, b, method, _req(rng, n, b, deep)))
    # the two documented shapes side by side, user data outside the key's range, both methods
    for method in ("uniform", "grid"):
        cases.append(_param_case(rng, 6, 2, method, 7, keys=[
            {"name": "nu", "range": [0.0, 1.0], "user": {**_spec(5, 6, "1d"), "scale": 1.0, "shift": 100.0}},
            {"name": "mu", "range": [0.0, 1.0], "user": {**_spec(5, 6, "2d", 1), "scale": 1.0, "shift": 100.0}},
            {"name": "kappa", "range": [-3.0, -1.0], "user": None}]))
    for n in ([2, 3, 4, 6, 8] if deep else [2, 4, 6]):
        for _ in range(6 if deep else 2):
            b = rng.randint(1, n)
            cases.append(_multi_case(rng, n, b, _req(rng, n, b, deep)))
    # equal table sizes, 2 and 3 networks, None entries at varying positions, shuffled dict orders
    for nnets in (2, 3):
        for _ in range(6 if deep else 3):
            n = rng.choice([2, 3, 4, 6])
            b = rng.randint(1, n)
            cases.append(_multi_case(rng, n, b, _req(rng, n, b, deep), nnets=nnets, equal=True))
    # ---- malformed stream
    bad = []
    c = _obs_case(rng, 4, 2, 1); c["val"] = _spec(2, 5, "1d"); bad.append(c)                 # lengths differ
    c = _obs_case(rng, 4, 2, 1, neq=1); c["eq"][0][1] = _spec(3, 3, "1d"); bad.append(c)     # eq length differs
    c = _obs_case(rng, 4, 2, 1); c["pin"] = _spec(1, 4, "3d", 2); bad.append(c)              # rank 3 input
    c = _obs_case(rng, 4, 2, 1); c["val"] = _spec(2, 4, "3d", 1); bad.append(c)              # rank 3 values
    c = _obs_case(rng, 4, 2, 1, neq=1); c["eq"][0][1] = _spec(3, 4, "3d", 1); bad.append(c)  # rank 3 parameter
    bad.append(_obs_case(rng, 4, 5, 1))                                                     # batch larger than n
    bad.append(_obs_case(rng, 4, 4, 3, neq=1))                                              # near miss: b = n
    for shape_kind, nn in (("3d", 4), ("1d", 5), ("2d2", 4), ("2d", 3)):
        u = _spec(5, nn, "2d" if shape_kind == "2d2" else shape_kind, 2 if shape_kind == "2d2" else 1)
        bad.append(_param_case(rng, 4, 2, "uniform", 1, keys=[
            {"name": "nu", "range": [0.0, 1.0], "user": {**u, "scale": 1.0, "shift": 0.0}}]))
    bad.append(_param_case(rng, 4, 5, "uniform", 1, keys=[{"name": "nu", "range": [0.0, 1.0], "user": None}]))
    bad.append(_param_case(rng, 4, 2, "foo", 1, keys=[{"name": "nu", "range": [0.0, 1.0], "user": None}]))
    bad.append(_param_case(rng, 4, 2, "foo", 2, keys=[       # unknown method is never looked at: all keys have data
        {"name": "nu", "range": [0.0, 1.0], "user": {**_spec(5, 4, "1d"), "scale": 1.0, "shift": 0.0}}]))
    bad.append(_param_case(rng, 4, 2, "uniform", 2, keys=[]))                               # no key at all
    m = _multi_case(rng, 4, 2, 1); m["pin_given"] = False; bad.append(m)
    m = _multi_case(rng, 4, 2, 1); m["val_given"] = False; bad.append(m)
    m = _multi_case(rng, 4, 2, 1); m["val_keys_extra"] = True; bad.append(m)
    m = _multi_case(rng, 4, 2, 1); m["eq_mode"] = "given"; m["eq_keys_missing"] = True; bad.append(m)
    m = _multi_case(rng, 4, 2, 1)
    m["nets"][0] = {"name": m["nets"][0]["name"], "pin": _spec(1, 4, "2d", 2), "val": None, "eq": []}
    bad.append(m)                                                                           # values None, inputs given
    m = _multi_case(rng, 4, 2, 1)
    m["nets"][0] = {"name": m["nets"][0]["name"], "pin": _spec(1, 4, "2d", 2), "val": _spec(2, 5, "1d"), "eq": []}
    bad.append(m)                                                                           # inner loader rejects
    m = _multi_case(rng, 4, 5, 1)
    m["nets"][0] = {"name": m["nets"][0]["name"], "pin": _spec(1, 4, "2d", 2), "val": _spec(2, 4, "1d"), "eq": []}
    bad.append(m)                                                                           # batch larger than a table
    for c in bad:
        c["malformed_stream"] = True
    return cases + bad


def shrink_candidates(case):
    if case.get("requests", 1) > 1:
        yield {**case, "requests": case["requests"] // 2}
        yield {**case, "requests": case["requests"] - 1}
    if case["kind"] == "obs":
        if case["b"] > 1:
            yield {**case, "b": case["b"] - 1}
        if case["n"] > case["b"] and case["n"] > 1:
            n = case["n"] - 1
            c = {**case, "n": n, "pin": {**case["pin"], "shape": [n] + case["pin"]["shape"][1:]},
                 "val": {**case["val"], "shape": [n] + case["val"]["shape"][1:]},
                 "eq": [[k, {**t, "shape": [n] + t["shape"][1:]}] for k, t in case["eq"]]}
            yield c
        if case["eq"]:
            yield {**case, "eq": case["eq"][:-1]}
    elif case["kind"] == "param":
        if case["b"] > 1:
            yield {**case, "b": case["b"] - 1}
        if len(case["keys"]) > 1:
            for i in range(len(case["keys"])):
                fix = lambda o: [j - (j > i) for j in (o or []) if j != i] or None  # noqa: E731
                yield {**case, "keys": case["keys"][:i] + case["keys"][i + 1:],
                       "range_order": fix(case.get("range_order")), "user_order": fix(case.get("user_order"))}
    elif case["kind"] == "multi":
        if case["b"] > 1:
            yield {**case, "b": case["b"] - 1}
        if len(case["nets"]) > 1:
            for i in range(len(case["nets"])):
                rest = case["nets"][:i] + case["nets"][i + 1:]
                if any(x["pin"] is not None for x in rest):
                    od = case.get("orders")
                    if od:
                        od = {d: [j - (j > i) for j in o if j != i] for d, o in od.items()}
                    yield {**case, "nets": rest, "orders": od}


def _perm(rows0, rows):
    from collections import defaultdict, deque

    pos = defaultdict(deque)
    for i, r in enumerate(rows0):
        pos[r.tobytes()].append(i)
    out = []
    for r in rows:
        q = pos[r.tobytes()]
        out.append(q.popleft() if q else len(rows0))
    return out


def _batch_json(bt):
    import numpy as np

    return {"pin": _ql(np.asarray(bt["pinn_in"])), "val": _ql(np.asarray(bt["val"])),
            "eq": [[k, _ql(np.asarray(v))] for k, v in sorted(bt["eq_params"].items())]}


def _run_obs(case):
    import jax
    import jax.numpy as jnp
    import numpy as np
    from jinns.data._DataGenerators import DataGeneratorObservations

    pin, val = _table(case["pin"]), _table(case["val"])
    eq = {k: _table(t) for k, t in case["eq"]}
    obs = {"error": None, "stage": None, "steps": [], "resets": 0,
           "tables": {"pin": _tbl_json(pin), "val": _tbl_json(val),
                      "eq": [[k, _tbl_json(v)] for k, v in sorted(eq.items())]}}
    try:
        # (the documented multi-device use: the tables placed with a sharding -- here the single CPU device)
        kw = {}
        if case["seed"] % 3 == 0:
            kw["sharding_device"] = jax.sharding.SingleDeviceSharding(jax.devices("cpu")[0])
        g = DataGeneratorObservations(jax.random.PRNGKey(case["seed"]), case["b"], jnp.asarray(pin), jnp.asarray(val),
                                      {k: jnp.asarray(v) for k, v in eq.items()}, **kw)
    except Exception as e:  # noqa: BLE001
        obs["error"], obs["stage"] = core.err_kind(e), "init"
        return obs
    prev = np.asarray(g.indices).copy()
    for r in range(case["requests"]):
        try:
            g, bt = g.get_batch()
        except Exception as e:  # noqa: BLE001
            obs["error"], obs["stage"] = core.err_kind(e), "batch"
            break
        idx = np.asarray(g.indices)
        if r > 0 and not np.array_equal(idx, prev):
            obs["resets"] += 1
        prev = idx.copy()
        obs["steps"].append({"indices": [int(i) for i in idx], **_batch_json(bt)})
    return obs


def _run_param(case):
    import jax
    import jax.numpy as jnp
    import numpy as np
    from jinns.data._DataGenerators import DataGeneratorParameter

    ks = case["keys"]
    ro = case.get("range_order") or list(range(len(ks)))
    uo = case.get("user_order") or list(range(len(ks)))
    if sorted(ro) != list(range(len(ks))) or sorted(uo) != list(range(len(ks))):
        ro = uo = list(range(len(ks)))
    # the two dicts are built in independently shuffled insertion orders: the merge must be by key
    ranges = {ks[i]["name"]: tuple(ks[i]["range"]) for i in ro if ks[i]["range"] is not None}
    user = {ks[i]["name"]: _table(ks[i]["user"]) for i in uo if ks[i]["user"] is not None}
    obs = {"error": None, "stage": None, "steps": [], "resets": 0, "stores": None,
           "user": [[k, _tbl_json(v)] for k, v in sorted(user.items())]}
    try:
        # an absent source is passed as None (the documented default) in every other case
        none_style = case["seed"] % 2 == 0
        ud = {k: jnp.asarray(v) for k, v in user.items()}
        g = DataGeneratorParameter(jax.random.PRNGKey(case["seed"]), case["n"], case["b"],
                                   param_ranges=(ranges or None) if none_style else ranges,
                                   method=case["method"], user_data=(ud or None) if none_style else ud)
    except Exception as e:  # noqa: BLE001
        obs["error"], obs["stage"] = core.err_kind(e), "init"
        return obs
    st0 = {k: np.asarray(v) for k, v in g.param_n_samples.items()}
    obs["stores"] = [[k, _ql(v)] for k, v in sorted(st0.items())]
    obs["store_shapes"] = {k: list(v.shape) for k, v in st0.items()}
    prev = {k: v.copy() for k, v in st0.items()}
    for r in range(case["requests"]):
        try:
            g, bt = g.get_batch()
        except Exception as e:  # noqa: BLE001
            obs["error"], obs["stage"] = core.err_kind(e), "batch"
            break
        step = []
        for k in sorted(bt):
            st = np.asarray(g.param_n_samples[k])
            if r > 0 and not np.array_equal(st, prev[k]):
                obs["resets"] += 1
            prev[k] = st.copy()
            step.append({"name": k, "perm": _perm(list(st0[k]), list(st)), "batch": _ql(np.asarray(bt[k])),
                         "shape": list(bt[k].shape)})
        obs["steps"].append(step)
    return obs


def _run_multi(case):
    import jax
    import jax.numpy as jnp
    import numpy as np
    from jinns.data._DataGenerators import DataGeneratorObservationsMultiPINNs

    def arr(spec):
        return None if spec is None else jnp.asarray(_table(spec))

    nets = case["nets"]
    ident = list(range(len(nets)))
    od = case.get("orders") or {}
    od = {d: (od.get(d) if sorted(od.get(d) or []) == ident else ident) for d in ("pin", "val", "eq")}
    # the user's dictionaries are built in independently shuffled INSERTION orders (same key sets):
    # the loader must pair the networks' tables by key, not by position
    pin = {nets[i]["name"]: arr(nets[i]["pin"]) for i in od["pin"]} if case["pin_given"] else None
    val = {nets[i]["name"]: arr(nets[i]["val"]) for i in od["val"]} if case["val_given"] else None
    if case.get("val_keys_extra") and val is not None:
        val["zz_extra"] = None
    eqd = None
    if case["eq_mode"] == "given":
        eqd = {nets[i]["name"]: {k: arr(t) for k, t in nets[i]["eq"]} for i in od["eq"]}
        if case.get("eq_keys_missing"):
            eqd.pop(case["nets"][-1]["name"])
    obs = {"error": None, "stage": None, "steps": [], "resets": 0, "empty_kinds": [],
           "pin_keys": sorted(pin) if pin is not None else [], "val_keys": sorted(val) if val is not None else [],
           "eq_keys": sorted(eqd) if eqd is not None else None}
    try:
        g = DataGeneratorObservationsMultiPINNs(case["b"], pin, val, observed_eq_params_dict=eqd,
                                                key=jax.random.PRNGKey(case["seed"]))
    except Exception as e:  # noqa: BLE001
        obs["error"], obs["stage"] = core.err_kind(e), "init"
        return obs
    prev = {}
    for r in range(case["requests"]):
        try:
            g, bt = g.get_batch()
        except Exception as e:  # noqa: BLE001
            obs["error"], obs["stage"] = core.err_kind(e), "batch"
            break
        step = []
        for k in sorted(bt):
            entry = bt[k]
            empty = len(jax.tree_util.tree_leaves(entry)) == 0
            dg = g.data_gen_obs.get(k)
            idx = None if dg is None else [int(i) for i in np.asarray(dg.indices)]
            if idx is not None:
                if r > 0 and prev.get(k) != idx:
                    obs["resets"] += 1
                prev[k] = idx
            if empty:
                obs["empty_kinds"].append(type(entry).__name__)
            step.append({"name": k, "empty": bool(empty), "indices": idx,
                         "batch": None if empty else _batch_json(entry)})
        obs["steps"].append(step)
    return obs


def run_impl(case):
    return {"obs": _run_obs, "param": _run_param, "multi": _run_multi}[case["kind"]](case)


def _batch_ranks_ok(bt):
    return _rank_ok(bt["pin"], 2) and _rank_ok(bt["val"], 2) and all(_rank_ok(v, 2) for _, v in bt["eq"])


def _well_ranked(case, obs):
    """every returned array has the documented rank (a batch of another rank cannot even be sent to the model)"""
    if case["kind"] == "obs":
        return all(_batch_ranks_ok(s) for s in obs["steps"])
    if case["kind"] == "param":
        return (obs["stores"] is None or all(_rank_ok(v, 2) for _, v in obs["stores"])) and \
            all(_rank_ok(e["batch"], 2) for s in obs["steps"] for e in s)
    return all(e["batch"] is None or _batch_ranks_ok(e["batch"]) for s in obs["steps"] for e in s)


def lean_request(case, obs):
    if not _well_ranked(case, obs):
        return None
    if case["kind"] == "obs":
        t = obs["tables"]
        return {"op": "c15_obs", "b": case["b"], "pin": t["pin"], "val": t["val"], "eq": t["eq"], "steps": obs["steps"]}
    if case["kind"] == "param":
        user = dict(obs["user"])
        keys = [{"name": k["name"], "range": None if k["range"] is None else [core.qstr(v) for v in k["range"]],
                 "user": user.get(k["name"])} for k in sorted(case["keys"], key=lambda k: k["name"])]
        return {"op": "c15_param", "n": case["n"], "b": case["b"], "method": case["method"], "keys": keys,
                "stores": obs["stores"],
                "steps": [[{k: v for k, v in e.items() if k != "shape"} for e in s] for s in obs["steps"]]}
    nets = [{"name": x["name"], "pin": None if x["pin"] is None else _tbl_json(_table(x["pin"])),
             "val": None if x["val"] is None else _tbl_json(_table(x["val"])),
             "eq": [[k, _tbl_json(_table(t))] for k, t in sorted(x["eq"])] if case["eq_mode"] == "given" else []}
            for x in sorted(case["nets"], key=lambda x: x["name"])]
    return {"op": "c15_multi", "b": case["b"], "pin_given": case["pin_given"], "val_given": case["val_given"],
            "pin_keys": obs["pin_keys"], "val_keys": obs["val_keys"], "eq_keys": obs["eq_keys"], "nets": nets,
            "steps": obs["steps"]}


def _rank_ok(x, d):
    """x is a nested list of exactly d levels (what the model driver's parser expects)"""
    if d == 0:
        return not isinstance(x, list)
    return isinstance(x, list) and all(_rank_ok(y, d - 1) for y in x)


def _ulp(m):
    if m == 0:
        return Fraction(0)
    return Fraction(2) ** (math.floor(math.log2(m)) - 52)


def _flat(a):
    if isinstance(a, list):
        for x in a:
            yield from _flat(x)
    else:
        yield a


def judge(case, obs, a):
    if a is None:
        return {"status": "violation", "clause": "batch-array-rank-is-not-2-(rows-x-columns)"}
    if a.get("nonfinite"):
        return {"status": "violation", "clause": a["clause"]}
    if a["error"] == "sampler_contract":
        if not a["holds"]:
            return {"status": "violation", "clause": a["clause"]}
        return {"status": "disagree", "clause": "sampler-contract-broken-but-Holds-true"}
    if obs["error"] is not None and a["error"] is None and case["kind"] == "param" and obs["stage"] == "init":
        # the property itself says the user's table is accepted in both documented shapes
        return {"status": "violation", "clause": "param-user-table-of-a-documented-shape-rejected",
                "impl": [obs["error"], obs["stage"]]}
    if obs["error"] is not None and a["error"] is None:
        # tables the model (hence the documentation) accepts: no aligned batch is served at all
        return {"status": "violation", "clause": "legal-configuration-rejected:" + obs["error"] + "@" + obs["stage"],
                "impl": [obs["error"], obs["stage"]]}
    if case["kind"] == "param" and not case["keys"]:
        # a parameter loader without any key: nothing to sample and nothing to align -- whether (and where) it
        # raises is incidental behaviour the property does not constrain (false alarm on harmless/C09-h2, which
        # serves an empty batch where the pinned code raised in `tree_transpose`)
        return {"status": "ok", "clause": None, "degenerate": "no-keys"}
    if (obs["error"], obs["stage"]) != (a["error"], a["stage"]):
        return {"status": "disagree", "clause": "rejection-differs", "impl": [obs["error"], obs["stage"]],
                "model": [a["error"], a["stage"]]}
    if not a["holds"]:
        return {"status": "violation", "clause": a["clause"], "step": a.get("step")}
    if obs["error"] is None and len(obs["steps"]) != case["requests"]:
        return {"status": "disagree", "clause": "missing-steps"}
    if case["kind"] == "param" and obs["stores"] is not None:
        for k, sh in obs["store_shapes"].items():
            if sh != [case["n"], 1]:
                return {"status": "violation", "clause": "param-store-shape-is-not-(n,1)"}
        for s in obs["steps"]:
            for e in s:
                if e["shape"] != [case["b"], 1]:
                    return {"status": "violation", "clause": "param-batch-shape-is-not-(b,1)"}
    if not a["oracle_contract"]:
        return {"status": "disagree", "clause": "reshuffle-is-not-a-permutation"}
    if not a["agree"]:
        return {"status": "disagree", "clause": "model-trace-differs"}
    if case["kind"] == "param" and case["method"] == "grid" and obs["stores"] is not None:
        model = dict((k, v) for k, v in a["model_stores"])
        for k in case["keys"]:
            if k["user"] is None and k["range"] is not None:
                impl = dict(obs["stores"])[k["name"]]
                tol = 4 * _ulp(max(abs(v) for v in k["range"]))
                x, y = list(_flat(impl)), list(_flat(model[k["name"]]))
                if len(x) != len(y) or any(abs(Fraction(u) - Fraction(v)) > tol for u, v in zip(x, y)):
                    return {"status": "disagree", "clause": "grid-store-differs-from-min+k(max-min)/n"}
    return {"status": "ok", "clause": None}


def nontrivial(case, obs):
    if obs.get("error") or case.get("malformed_stream"):
        return False
    if case["kind"] == "obs":
        return bool(case["n"] >= 2 and not case["pin"].get("dup") and obs["resets"] >= 1)
    if case["kind"] == "param":
        return bool(case["n"] >= 2 and case["keys"] and obs["resets"] >= 1)
    return bool(obs["resets"] >= 1 and any(x["pin"] is None for x in case["nets"]))


def tags(case, obs):
    out = [f"kind={case['kind']}"]
    if case["kind"] == "obs":
        out += [f"pin_rank={len(case['pin']['shape'])}", f"val_rank={len(case['val']['shape'])}",
                f"n_eq={len(case['eq'])}", "b_divides_n" if case["n"] % max(case["b"], 1) == 0 else "b_not_dividing_n"]
    elif case["kind"] == "param":
        out.append(f"method={case['method']}")
        for k in case["keys"]:
            src = ("both" if k["range"] else "user") if k["user"] else "range"
            out.append(f"key_source={src}")
            if k["user"]:
                out.append(f"user_shape_rank={len(k['user']['shape'])}")
            elif case["method"] == "grid" and k["range"]:
                st = Fraction(k["range"][1] - k["range"][0]) / case["n"]
                out.append("grid_ulp_rule" if st.denominator & (st.denominator - 1) else "grid_exact")
    else:
        out.append(f"nets={len(case['nets'])}")
        out.append(f"nets_without_data={sum(1 for x in case['nets'] if x['pin'] is None)}")
        od = case.get("orders") or {}
        out.append("dict_orders_differ" if len({tuple(o) for o in od.values()}) > 1 else "dict_orders_equal")
        for kname in sorted(set(obs.get("empty_kinds", []))):
            out.append(f"empty_entry={kname}")
    if obs.get("error"):
        out.append(f"rejected={obs['error']}@{obs['stage']}")
    if case.get("malformed_stream"):
        out.append("malformed_stream")
    return out


def widen(rng, bad_cases):
    out = []
    for c in bad_cases:
        for n in range(1, 9):
            for b in {1, max(1, n // 2), n}:
                if c["kind"] == "obs":
                    out.append(_obs_case(rng, n, b, 2 * (-(-n // b)) + 1))
                elif c["kind"] == "param":
                    out.append(_param_case(rng, n, b, c["method"], 2 * (-(-n // b)) + 1))
                else:
                    out.append(_multi_case(rng, n, b, 2 * (-(-n // b)) + 1))
    return out
