"""
Shared by the RAR properties C16 and C17: builds real jinns generators with `rar_parameters`, a real
loss around an exact polynomial network, and drives `init_rar` / `trigger_rar` iteration by iteration
or the real `jinns.solve`, recording what the properties talk about.

Exactness.  The network is a real `PINN` around `polynet.PolyNet` (integer coefficients) whose
`input_transform` quantises its input to multiples of 1/Q (`floor(z*Q)/Q`, exact in float64); the
dynamic loss is `u(.) + a` with `a` the only trainable parameter (`eq_params["a"]`, derivative key
"eq_params").  With `optax.sgd(1/2)` the update is `a <- -mean_batch u`, a dyadic: every float64
operation of the gradient step and of the residual evaluation in `rar_step_true` is exact, so the
squared residuals reported by the hook are compared by equality with `(P(q(c)) + a)^2` computed in
exact rationals by the harness.
"""
from __future__ import annotations

import math
from fractions import Fraction

from harness import core
from harness.polynet import P, make_pinn

EQ_TYPE = {"ode": "ODE", "statio": "statio_PDE", "nonstatio": "nonstatio_PDE"}


# ------------------------------------------------------------------------------------------------
# case helpers (pure python)
# ------------------------------------------------------------------------------------------------
def has_t(kind):
    return kind in ("ode", "nonstatio")


def has_x(kind):
    return kind in ("statio", "nonstatio")


def poly_from_json(nvars, js):
    return P(nvars, {tuple(e): Fraction(c) for c, e in js})


def nvars_of(case):
    return (1 if has_t(case["kind"]) else 0) + (case["dim"] if has_x(case["kind"]) else 0)


def cfg_json(case):
    return {"kind": case["kind"], "start": case["start"], "every": case["every"],
            "nt": case["nt"], "ntStart": case["ntStart"], "selT": case["selT"],
            "n": case["n"], "nStart": case["nStart"], "selX": case["selX"]}


def sizes_json(case):
    return {"sampT": case["sampT"], "sampX": case["sampX"], "bT": case["bT"], "bX": case["bX"],
            "dim": case["dim"],
            "missingStart": ("ntStart_arg" in case and case["ntStart_arg"] is None)
            or ("nStart_arg" in case and case["nStart_arg"] is None)}


def cap_of(case):
    caps = []
    if has_t(case["kind"]):
        caps.append((case["nt"] - case["ntStart"]) // case["selT"])
    if has_x(case["kind"]):
        caps.append((case["n"] - case["nStart"]) // case["selX"])
    return min(caps)


def static_key(case):
    """what forces a new XLA compilation"""
    return tuple(case[k] for k in ("kind", "mode", "dim", "nt", "ntStart", "selT", "sampT", "bT",
                                   "n", "nStart", "selX", "sampX", "bX", "Q")) + (
        case.get("n_iter") if case["mode"] == "solve" else 0, bool(case.get("system")))


def random_landscape(rng, nv):
    """a small integer polynomial of degree <= 2 with a non-constant part"""
    from harness.polynet import monomials

    ms = [e for e in monomials(nv, 2) if sum(e) > 0]
    while True:
        c = {}
        for e in rng.sample(ms, min(len(ms), rng.randint(2, 4))):
            v = rng.choice([-2, -1, 1, 2])
            c[e] = v
        c[(0,) * nv] = rng.randint(-2, 2)
        p = P(nv, c)
        if any(sum(e) > 0 for e in p.c):
            return p


def quant(z: Fraction, Q: int) -> Fraction:
    return Fraction(math.floor(z * Q), Q)


# ------------------------------------------------------------------------------------------------
# real jinns objects
# ------------------------------------------------------------------------------------------------
def build(case):
    import jax
    import jax.numpy as jnp
    from jinns.data._DataGenerators import DataGeneratorODE, CubicMeshPDEStatio, CubicMeshPDENonStatio
    from jinns.loss._DynamicLossAbstract import ODE, PDEStatio, PDENonStatio
    from jinns.loss._LossODE import LossODE
    from jinns.loss._LossPDE import LossPDEStatio, LossPDENonStatio
    from jinns.parameters import Params, DerivativeKeysODE, DerivativeKeysPDEStatio, DerivativeKeysPDENonStatio

    kind = case["kind"]
    Q = float(case["Q"])
    nv = nvars_of(case)
    poly = poly_from_json(nv, case["poly"])
    pinn = make_pinn([poly], EQ_TYPE[kind], input_transform=lambda i, p: jnp.floor(i * Q) / Q)
    a0 = float(Fraction(case["a0"]))
    params = Params(nn_params=pinn.init_params(), eq_params={"a": jnp.array(a0)})
    key = jax.random.PRNGKey(case["seed"])
    rar = {"start_iter": case["start"], "update_every": case["every"]}
    if has_t(kind):
        rar["sample_size_times"] = case["sampT"]
        rar["selected_sample_size_times"] = case["selT"]
    if has_x(kind):
        rar["sample_size_omega"] = case["sampX"]
        rar["selected_sample_size_omega"] = case["selX"]
    if case["seed"] % 2 == 1:
        # the user's dictionary in another insertion order (space entries first, schedule last)
        rar = {k: rar[k] for k in sorted(rar, key=lambda k: (not k.endswith("omega"), k))}
    tmin, tmax = float(case["tmin"]), float(case["tmax"])
    xmin = tuple(float(v) for v in case["xmin"])
    xmax = tuple(float(v) for v in case["xmax"])
    if case.get("system"):
        # a system of two equations on two networks: r1 = u1 + a, r2 = u2 - a (trigger mode only)
        from jinns.loss._LossODE import SystemLossODE
        from jinns.loss._LossPDE import SystemLossPDE
        from jinns.loss._loss_weights import LossWeightsODEDict, LossWeightsPDEDict
        from jinns.parameters import ParamsDict

        poly2 = poly_from_json(nv, case["poly2"])
        pinn2 = make_pinn([poly2], EQ_TYPE[kind], input_transform=lambda i, p: jnp.floor(i * Q) / Q)
        Base = ODE if kind == "ode" else PDEStatio

        class E1(Base):
            def equation(self, z, u, params):
                return u["u1"](z, params.extract_params("u1")) + params.eq_params["a"]

        class E2(Base):
            def equation(self, z, u, params):
                return u["u2"](z, params.extract_params("u2")) - params.eq_params["a"]

        nn = {"u1": pinn.init_params(), "u2": pinn2.init_params()}
        params = ParamsDict(nn_params=nn, eq_params={"a": jnp.array(a0)})
        ud, dd = {"u1": pinn, "u2": pinn2}, {"e1": E1(), "e2": E2()}
        if kind == "ode":
            loss = SystemLossODE(u_dict=ud, dynamic_loss_dict=dd, loss_weights=LossWeightsODEDict(dyn_loss=1.0),
                                 params_dict=params)
            gen = DataGeneratorODE(key, case["nt"], tmin, tmax, case["bT"], rar_parameters=rar,
                                   nt_start=case["ntStart"])
        else:
            loss = SystemLossPDE(u_dict=ud, dynamic_loss_dict=dd, loss_weights=LossWeightsPDEDict(),
                                 params_dict=params)
            gen = CubicMeshPDEStatio(key=key, n=case["n"], nb=None, omega_batch_size=case["bX"],
                                     omega_border_batch_size=None, dim=case["dim"], min_pts=xmin, max_pts=xmax,
                                     rar_parameters=rar, n_start=case["nStart"])
        mk = lambda a: ParamsDict(nn_params=nn, eq_params={"a": jnp.array(a)})
        return {"gen": gen, "loss": loss, "params": params, "poly": poly, "poly2": poly2, "mk_params": mk}
    if kind == "ode":
        class Eq(ODE):
            def equation(self, t, u, params):
                return u(t, params) + params.eq_params["a"]

        dk = DerivativeKeysODE.from_str(params=params, dyn_loss="eq_params")
        loss = LossODE(u=pinn, dynamic_loss=Eq(), derivative_keys=dk, initial_condition=None, params=params)
        gen = DataGeneratorODE(key, case["nt"], tmin, tmax, case["bT"], rar_parameters=rar,
                               nt_start=case.get("ntStart_arg", case["ntStart"]))
    elif kind == "statio":
        class Eq(PDEStatio):
            def equation(self, x, u, params):
                return u(x, params) + params.eq_params["a"]

        dk = DerivativeKeysPDEStatio.from_str(params=params, dyn_loss="eq_params")
        loss = LossPDEStatio(u=pinn, dynamic_loss=Eq(), derivative_keys=dk, params=params)
        gen = CubicMeshPDEStatio(key=key, n=case["n"], nb=None, omega_batch_size=case["bX"],
                                 omega_border_batch_size=None, dim=case["dim"], min_pts=xmin, max_pts=xmax,
                                 rar_parameters=rar, n_start=case.get("nStart_arg", case["nStart"]))
    else:
        class Eq(PDENonStatio):
            def equation(self, t, x, u, params):
                return u(t, x, params) + params.eq_params["a"]

        dk = DerivativeKeysPDENonStatio.from_str(params=params, dyn_loss="eq_params")
        loss = LossPDENonStatio(u=pinn, dynamic_loss=Eq(), derivative_keys=dk, params=params)
        gen = CubicMeshPDENonStatio(key=key, n=case["n"], nb=None, nt=case["nt"], omega_batch_size=case["bX"],
                                    omega_border_batch_size=None, temporal_batch_size=case["bT"],
                                    dim=case["dim"], min_pts=xmin, max_pts=xmax, tmin=tmin, tmax=tmax,
                                    rar_parameters=rar, n_start=case.get("nStart_arg", case["nStart"]),
                                    nt_start=case.get("ntStart_arg", case["ntStart"]))
    mk = lambda a: Params(nn_params=params.nn_params, eq_params={"a": jnp.array(a)})
    return {"gen": gen, "loss": loss, "params": params, "poly": poly, "poly2": None, "mk_params": mk}


class Labeler:
    """points -> naturals (equal points get equal labels)"""

    def __init__(self):
        self.table = {}

    def lab(self, row):
        import numpy as np

        k = np.ascontiguousarray(np.asarray(row, dtype=np.float64)).tobytes()
        if k not in self.table:
            self.table[k] = len(self.table)
        return self.table[k]

    def labs(self, rows):
        return [self.lab(r) for r in rows]


def _mask(p):
    import numpy as np

    return [bool(v) for v in (np.asarray(p) != 0)]


def snapshot(case, g, LT, LX):
    """stores (labels), non-zero patterns and counters of a generator"""
    import numpy as np

    kind = case["kind"]
    out = {"iterNb": int(g.rar_iter_nb), "fromLast": int(g.rar_iter_from_last_sampling)}
    if has_t(kind):
        out["storeT"] = LT.labs(np.asarray(g.times))
        out["pT"] = _mask(g.p_times)
    if has_x(kind):
        out["storeX"] = LX.labs(np.asarray(g.omega))
        out["pX"] = _mask(g.p_omega)
    return out


def exact_residuals(case, poly, a: Fraction, cand_t, cand_x, poly2=None):
    """(P(q(t), q(x)) + a)^2 at the candidates, exact; list (ode/statio) or nT x nX table.
    Systems (ode/statio): sum over the equations of the squared residuals, (P1 + a)^2 + (P2 - a)^2."""
    kind, Q = case["kind"], case["Q"]
    if poly2 is not None:
        zs = [[quant(Fraction(float(t)), Q)] for t in cand_t] if kind == "ode" else [
            [quant(Fraction(float(v)), Q) for v in row] for row in cand_x]
        return [(poly(z) + a) ** 2 + (poly2(z) - a) ** 2 for z in zs]
    qt = [[quant(Fraction(float(t)), Q)] for t in cand_t] if cand_t is not None else None
    qx = [[quant(Fraction(float(v)), Q) for v in row] for row in cand_x] if cand_x is not None else None
    if kind == "ode":
        return [(poly(z) + a) ** 2 for z in qt]
    if kind == "statio":
        return [(poly(z) + a) ** 2 for z in qx]
    return [[(poly(zt + zx) + a) ** 2 for zx in qx] for zt in qt]


def step_record(case, rec, poly, a: Fraction, LT, LX, poly2=None):
    """turns one hook record into the exact, labelled description of the step"""
    import numpy as np

    kind = case["kind"]
    tag, d = rec
    out = {"hook": tag, "hook_iter_nb": int(d["iter_nb"])}
    if kind == "nonstatio":
        ct, cx = np.asarray(d["candidates_times"]), np.asarray(d["candidates_omega"])
        out["idxT"] = [int(v) for v in d["times_idx"]]
        out["idxX"] = [int(v) for v in d["omega_idx"]]
    elif kind == "ode":
        ct, cx = np.asarray(d["candidates"]), None
        out["idxT"] = [int(v) for v in d["idx"]]
    else:
        ct, cx = None, np.asarray(d["candidates"])
        out["idxX"] = [int(v) for v in d["idx"]]
    if ct is not None:
        out["candT"] = [[core.qstr(t)] for t in ct]
        out["candTLab"] = LT.labs(ct)
    if cx is not None:
        out["candX"] = core.qlist(cx)
        out["candXLab"] = LX.labs(cx)
    out["mse"] = core.qlist(np.asarray(d["mse"]))
    ex = exact_residuals(case, poly, a, ct, cx, poly2)
    out["exact"] = [[core.qstr(v) for v in row] for row in ex] if kind == "nonstatio" else [core.qstr(v) for v in ex]
    out["finite"] = bool(np.all(np.isfinite(np.asarray(d["mse"]))))
    return out


def _drain():
    import jax
    from jinns.solver import _rar

    jax.effects_barrier()
    recs = list(_rar._JINNS_VERIF_SINK)
    _rar._JINNS_VERIF_SINK.clear()
    return recs


def _batches(case, g, bt, LT, LX):
    import numpy as np

    kind = case["kind"]
    out = {}
    if kind == "ode":
        out["batchT"] = LT.labs(np.asarray(bt.temporal_batch))
    elif kind == "statio":
        out["batchX"] = LX.labs(np.asarray(bt.inside_batch))
    else:
        tx = np.asarray(bt.times_x_inside_batch)
        bX = case["bX"]
        out["batchT"] = LT.labs(tx[::bX, 0])
        out["batchX"] = LX.labs(tx[:bX, 1:])
    return out


def run_trigger(case):
    """drives get_batch / trigger_rar by hand.  case["ops"]: list of ["draw"] | ["trigger", i, a]"""
    import jax.numpy as jnp
    from jinns.solver._rar import init_rar, trigger_rar

    S = build(case)
    g, loss, poly = S["gen"], S["loss"], S["poly"]
    LT, LX = Labeler(), Labeler()
    _drain()
    init = snapshot(case, g, LT, LX)
    g, st, sf = init_rar(g)
    events = []
    for op in case["ops"]:
        if op[0] == "draw":
            g, bt = g.get_batch()
            ev = {"ev": "draw", **{k: v for k, v in snapshot(case, g, LT, LX).items() if k.startswith("store")},
                  **_batches(case, g, bt, LT, LX)}
            # a reshuffle is observed as: the cursor is back at 0 (an advance makes it >= batch size)
            if has_t(case["kind"]):
                ev["resetT"] = bool(int(g.curr_time_idx) == 0)
            if has_x(case["kind"]):
                ev["resetX"] = bool(int(g.curr_omega_idx) == 0)
            events.append(ev)
        elif op[0] == "reinit":
            # what a second `jinns.solve` does with the generator a first one returned: `init_rar` again, then
            # triggers whose iteration number restarts at 0.  The refinement state lives in the generator.
            g, st, sf = init_rar(g)
        else:
            _, i, a = op
            af = Fraction(a)
            params = S["mk_params"](float(af))
            _, _, g = trigger_rar(i, loss, params, g, st, sf)
            recs = _drain()
            ev = {"ev": "trigger", "i": i, "a": a, "stepped": len(recs) > 0, "n_hook_records": len(recs),
                  **snapshot(case, g, LT, LX)}
            if recs:
                ev.update(step_record(case, recs[0], poly, af, LT, LX, S["poly2"]))
            events.append(ev)
    return {"init": init, "events": events}


def run_solve(case):
    """the real jinns.solve with optax.sgd(1/2); a tick (ordered debug callback in the optimizer's
    update) separates the iterations in the hook's sink"""
    import jax
    import numpy as np
    import optax
    import jinns
    from jinns.solver import _rar

    S = build(case)
    g, loss, poly, params = S["gen"], S["loss"], S["poly"], S["params"]
    LT, LX = Labeler(), Labeler()
    _drain()
    init = snapshot(case, g, LT, LX)
    base = optax.sgd(0.5)
    sink = _rar._JINNS_VERIF_SINK

    def update(grads, state, params=None):
        jax.debug.callback(lambda a: sink.append(("tick", {"a": np.asarray(a)})), params.eq_params["a"],
                           ordered=True)
        return base.update(grads, state, params)

    opt = optax.GradientTransformation(base.init, update)
    out = jinns.solve(n_iter=case["n_iter"], init_params=params, data=g, loss=loss, optimizer=opt, verbose=False)
    recs = _drain()
    g2 = out[3]
    a_final = Fraction(float(out[0].eq_params["a"]))
    # split the sink into iterations
    iters, cur = [], None
    for r in recs:
        if r[0] == "tick":
            cur = {"a_before": Fraction(float(r[1]["a"])), "steps": []}
            iters.append(cur)
        else:
            if cur is None:
                cur = {"a_before": None, "steps": []}
                iters.append(cur)
            cur["steps"].append(r)
    events = []
    for i, it in enumerate(iters):
        a_after = iters[i + 1]["a_before"] if i + 1 < len(iters) else a_final
        ev = {"ev": "trigger", "i": i, "a": core.qstr(a_after), "stepped": len(it["steps"]) > 0,
              "n_hook_records": len(it["steps"])}
        if it["steps"]:
            ev.update(step_record(case, it["steps"][0], poly, a_after, LT, LX))
        events.append(ev)
    final = snapshot(case, g2, LT, LX)
    return {"init": init, "events": events, "final": final, "n_ticks": len(iters),
            "a_final": core.qstr(a_final)}


def _raised_in_jinns(e):
    """does the traceback pass through jinns (its own code or the jax calls it makes)?"""
    import traceback

    return any("/jinns/" in fr.filename for fr in traceback.extract_tb(e.__traceback__))


def run(case):
    """an exception raised by jinns (construction, tracing of trigger_rar, solve) is an observation:
    the configuration was rejected; anything else is a harness bug and escapes"""
    try:
        return run_trigger(case) if case["mode"] == "trigger" else run_solve(case)
    except Exception as e:  # noqa: BLE001
        if not _raised_in_jinns(e):
            raise
        return {"error": core.err_kind(e), "message": str(e)[:300]}
