#!/bin/bash
# runs every claimed check once (quick by default) against /repo, serially; prints one line per check
cd "$(dirname "$0")/.."
tier=${VERIF_TIER:-quick}
for p in $(python3 -c "import json;print(' '.join(json.load(open('tools/claimed.json'))))"); do
  out=$(./check $p --tier $tier 2>&1); rc=$?
  echo "$p rc=$rc $(echo "$out" | grep -E 'VIOLATION|KNOWN-FINDING|INFRA' | head -3 | tr '\n' ' ') $(echo "$out" | tail -1)"
done
