#!/bin/bash
# Runs every seeded change against the check of its own property (scratch worktree, /repo untouched) and
# records the outcome in seeded/<id>/detection.json.   usage: tools/seed_matrix.sh [id ...]
V=$(cd "$(dirname "$0")/.." && pwd)
cd "$V"
ids=("$@"); [ ${#ids[@]} -eq 0 ] && ids=($(ls seeded))
for id in "${ids[@]}"; do
  p=${id%-*}
  out=$(tools/seed_run.sh "$id" "$p" 2>&1)
  line=$(echo "$out" | grep -E "^VIOLATION" | head -1)
  rc=$(echo "$out" | grep -oE "exit=[0-9]+" | tail -1 | cut -d= -f2)
  python3 - "$id" "$p" "$rc" "$line" <<'PY'
import sys, json, subprocess, time
id_, p, rc, line = sys.argv[1:5]
head = subprocess.run(["git","-C","/repo","rev-parse","--short","HEAD"],capture_output=True,text=True).stdout.strip()
vh = subprocess.run(["git","-C","/verif","rev-parse","--short","HEAD"],capture_output=True,text=True).stdout.strip()
import os
seed = os.environ.get("VERIF_SEED", "0")
d = {"seeded": id_, "check": p, "tier": "quick", "seed": int(seed), "exit": int(rc or -1), "detected": rc == "1" and line.startswith("VIOLATION"),
     "violation_line": line, "repo_head": head, "verif_head": vh, "at": time.strftime("%Y-%m-%d %H:%M:%S")}
json.dump(d, open(f"/verif/seeded/{id_}/detection" + ("" if seed == "0" else f"_seed{seed}") + ".json", "w"), indent=1)
print(id_, "DETECTED" if d["detected"] else "MISSED", line[:120])
PY
done
