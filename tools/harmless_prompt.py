#!/usr/bin/env python3
"""prompt for a fresh sub-agent asked for a HARMLESS refactor (property still holds) — used to test for false alarms"""
import json, sys
pid, tag = sys.argv[1], sys.argv[2]
p = next(json.loads(l) for l in open('/verif/properties.jsonl') if json.loads(l)['id'] == pid)
import glob
prev = []
for f in sorted(glob.glob(f"/verif/harmless/{pid}-*/meta.json")):
    try:
        prev.append("- " + (json.load(open(f)).get("summary") or "")[:500].replace("\n", " "))
    except Exception:
        pass
avoid = ("\nALREADY TRIED by another tester (do something DIFFERENT: other functions of the anchored files, other styles of rewrite — e.g. "
         "change private data layout or dtype handling that cannot affect results, swap the order in which independent terms / generators / "
         "dictionary entries are processed, cache or hoist invariant computations, replace tree_map by explicit loops or the reverse, change "
         "which PRNG sub-key feeds which draw, restructure class internals (helpers, properties, early validation that raises the same errors)):\n"
         + "\n".join(prev) + "\n") if prev else ""
wt = f"/tmp/mut-{pid}-{tag}"
out = f"/tmp/mut-{pid}-{tag}.out"
print(f"""You are testing whether an (unknown to you) verification harness raises FALSE ALARMS on harmless changes to the Python/JAX library jinns (physics-informed neural networks). You get only a property the library satisfies, and your own scratch git worktree of the library. Do not look at or use anything under /verif.

PROPERTY {pid} — {p['title']}
Statement: {p['statement']}
Quantified over: {p['quantifier']['text']}
Where it lives: files {p['anchors']['files']}; mechanisms: {[m['name'] + ' @ ' + m.get('where', '') for m in p['anchors']['mechanism']]}

YOUR WORKTREE: {wt} (a git worktree of the library at its current HEAD; python = /venv/bin/python; run code against it with `cd {wt} && JAX_PLATFORMS=cpu PYTHONPATH={wt} /venv/bin/python yourscript.py` — check `import jinns; print(jinns.__file__)` points into {wt}). Never touch /repo itself, never commit anything, never use `git stash` (shared between worktrees; toggle with `git diff > patch`, `git apply -R patch`, `git apply patch`).

{avoid}
TASK: write a realistic, NON-TRIVIAL refactor or internal behaviour change of the code this property is anchored in, of the kind a maintainer would merge, under which the property above STILL HOLDS for every input (and the public API, argument validation and error behaviour are unchanged). Make it as internally different as you plausibly can while staying correct, for example: a different but equivalent algorithm (an index-gather instead of repeat/tile, a scan instead of a Python loop, a sum of diagonal entries instead of a trace, jacfwd instead of jacrev, a different but valid way of shuffling or of consuming/splitting PRNG keys, so that the random stream differs but every contract is kept), reordered independent statements, renamed locals / private helpers, restructured control flow (elif chains, early returns), mathematically equal re-associations that are exact on small integers and dyadic rationals, different private attribute layout that is not part of the documented behaviour. Touch 10-60 lines. Do NOT change anything the property (or the documented public behaviour) constrains.

Then write a demonstration `{out}/demo.py` that exercises the property's public behaviour on several inputs and exits 0 (prints OK) BOTH on the original code and with your change.

Verify: (1) with your change applied the stable tests pass: `cd {wt} && JAX_PLATFORMS=cpu PYTHONPATH={wt} /venv/bin/python -m pytest -q -p no:cacheprovider --timeout=900 -q tests/dataGenerator_tests tests/parameters_tests tests/utils_tests tests/solver_tests/test_NSPipeFlow_x32_eqx.py tests/solver_tests/test_nan_params_catch.py tests/solver_tests/test_parameter_tracker.py tests/solver_tests/test_rar_algorithm.py tests/solver_tests_spinn/test_NSPipeFlow_x32_spinn_eqx.py` (all must pass; other test files fail on the original code for unrelated reasons — ignore them); (2) the demo passes with and without the change.

Deliver in {out}/ (create it): `patch.diff` (`git -C {wt} diff`), `demo.py`, `meta.json` with keys property ("{pid}"), kind ("harmless"), summary (what was changed and why the property still holds), ran (commands and outcomes). Leave the change applied. Final message: the summary in 5 lines at most.""")
