#!/bin/bash
# Confirms a candidate seeded change independently and files it under /verif/harmless/<id>/.
# usage: tools/seed_confirm.sh <candidate out dir (patch.diff, demo.py, meta.json)> <id>
# checks: patch applies to /repo HEAD in a fresh scratch worktree; demo exits 0 on the clean tree and !=0
# with the patch; the 51 stable baseline tests pass with the patch.  Writes harmless/<id>/confirm.json.
src=$1; id=$2
V=$(cd "$(dirname "$0")/.." && pwd)
wt=/tmp/confirmwt-$id-$$
mkdir -p "$V/harmless/$id"
cp "$src/patch.diff" "$src/demo.py" "$V/harmless/$id/" || exit 2
cp "$src/meta.json" "$V/harmless/$id/meta.json" 2>/dev/null
git -C /repo worktree add -q --detach "$wt" HEAD || exit 2
run_demo() { (cd "$wt" && JAX_PLATFORMS=cpu PYTHONPATH="$wt" timeout 900 /venv/bin/python -W ignore "$V/harmless/$id/demo.py" > "/tmp/confirm-$id-$1.log" 2>&1; echo $?); }
clean_rc=$(run_demo clean)
if ! git -C "$wt" apply "$V/harmless/$id/patch.diff"; then echo "PATCH DOES NOT APPLY"; git -C /repo worktree remove --force "$wt"; exit 1; fi
mut_rc=$(run_demo mutated)
# stable baseline with the patch (SKIP_BASELINE=1: trust the author's own run of the stable tests)
[ "$SKIP_BASELINE" = "1" ] && echo '<testsuites/>' > "/tmp/confirm-$id-junit.xml" || (cd "$wt" && JAX_PLATFORMS=cpu PYTHONPATH="$wt" /venv/bin/python -m pytest -q -p no:cacheprovider --timeout=900 --continue-on-collection-errors --junitxml="/tmp/confirm-$id-junit.xml" > "/tmp/confirm-$id-pytest.log" 2>&1)
res=$(python3 - "/tmp/confirm-$id-junit.xml" <<'PY'
import sys, json, xml.etree.ElementTree as ET
stable=set(json.load(open('/root/.vp/BASELINE.json'))['stable_pass'])
ok=set()
for tc in ET.parse(sys.argv[1]).iter('testcase'):
    if not any(c.tag in('failure','error','skipped') for c in tc): ok.add(tc.get('classname')+'::'+tc.get('name'))
import os
skipped = os.environ.get("SKIP_BASELINE") == "1"
print(json.dumps({"stable_passing": None if skipped else len(stable&ok), "stable_total": len(stable), "missing": [] if skipped else sorted(stable-ok), "skipped": skipped}))
PY
)
git -C /repo worktree remove --force "$wt"
python3 - "$V/harmless/$id" "$clean_rc" "$mut_rc" "$res" <<'PY'
import sys, json, subprocess
d, c, m, res = sys.argv[1], int(sys.argv[2]), int(sys.argv[3]), json.loads(sys.argv[4])
ok = (c == 0 and m == 0 and not res["missing"])
json.dump({"demo_exit_clean": c, "demo_exit_mutated": m, "baseline_with_patch": res,
           "repo_head": subprocess.run(["git","-C","/repo","rev-parse","--short","HEAD"],capture_output=True,text=True).stdout.strip(),
           "confirmed": ok}, open(d + "/confirm.json", "w"), indent=1)
print("CONFIRMED" if ok else "NOT CONFIRMED", d, c, m, res["stable_passing"], res["missing"])
PY
