#!/usr/bin/env python3
"""prints the prompt given to a fresh mutation sub-agent for property <id> (only the property text and a worktree)"""
import json, sys
pid, tag = sys.argv[1], sys.argv[2]
focus = sys.argv[3] if len(sys.argv) > 3 else ""
p = next(json.loads(l) for l in open('/verif/properties.jsonl') if json.loads(l)['id'] == pid)
import glob
prev = []
for f in sorted(glob.glob(f"/verif/seeded/{pid}-*/meta.json")):
    try:
        prev.append("- " + (json.load(open(f)).get("summary") or "")[:400].replace("\n", " "))
    except Exception:
        pass
avoid = ("\nALREADY TRIED by other testers for this property (choose a DIFFERENT site and mechanism; prefer a different function/class, "
         "a different kind of slip, e.g. two cooperating sites that each look fine alone, a multi-step sequence, state carried across calls, "
         "an interaction between two features):\n" + "\n".join(prev) + "\n") if prev else ""
wt = f"/tmp/mut-{pid}-{tag}"
out = f"/tmp/mut-{pid}-{tag}.out"
print(f"""You are testing how well an (unknown to you) verification harness detects realistic regressions in the Python/JAX library jinns (physics-informed neural networks). You get only a property the library is supposed to satisfy, and your own scratch git worktree of the library. Do not look at or use anything under /verif.

PROPERTY {pid} — {p['title']}
Statement: {p['statement']}
Quantified over: {p['quantifier']['text']}
Where it lives: files {p['anchors']['files']}; mechanisms: {[m['name'] + ' @ ' + m.get('where', '') for m in p['anchors']['mechanism']]}

YOUR WORKTREE: {wt} (a git worktree of the library at its current HEAD; python = /venv/bin/python; run code against it with `cd {wt} && JAX_PLATFORMS=cpu PYTHONPATH={wt} /venv/bin/python yourscript.py` — check `import jinns; print(jinns.__file__)` points into {wt}). Never touch /repo itself and never commit anything.

{avoid}
{("FOCUS for this round: " + focus + chr(10)) if focus else ""}
TASK: write ONE small, realistic change to the library source (the kind of slip a maintainer could make in a refactor: an off-by-one, a swapped argument, a wrong axis/index/key, a condition that is subtly wrong, a stale variable, two sites that each look fine alone) that BREAKS the property above while (a) the package still imports and (b) the existing test suite still passes. Prefer a change that needs something specific to manifest (a particular size/shape relation, a multi-step sequence of calls, an unusual but legal input, a later epoch/iteration, a particular configuration), NOT one that ordinary first use would expose at once. Do not make the change depend on magic constants or special-case inputs artificially ("if n == 7"); it must look like an honest bug.

Then write a demonstration: a small standalone script `{out}/demo.py` that exits 0 (prints OK) on the ORIGINAL code and exits 1 (prints what is wrong) WITH your change, by exercising the library's public behaviour relevant to the property.

Verify all of it yourself:
1. with your change applied in {wt}: the stable part of the test suite passes. The full suite takes ~4-5 minutes: `cd {wt} && JAX_PLATFORMS=cpu PYTHONPATH={wt} /venv/bin/python -m pytest -q -p no:cacheprovider --timeout=900 -x -q tests/dataGenerator_tests tests/parameters_tests tests/utils_tests tests/solver_tests/test_NSPipeFlow_x32_eqx.py tests/solver_tests/test_nan_params_catch.py tests/solver_tests/test_parameter_tracker.py tests/solver_tests/test_rar_algorithm.py tests/solver_tests_spinn/test_NSPipeFlow_x32_spinn_eqx.py` (these are the tests that pass on the original code; other test files fail already on the original code for unrelated reasons — ignore them). All of these must still pass.
2. the demo fails with the change and passes without it (to switch, save your change with `git -C {wt} diff > {out}/patch.diff`, then `git -C {wt} apply -R {out}/patch.diff` / `git -C {wt} apply {out}/patch.diff`; do NOT use `git stash`: the stash is shared with other worktrees of the same repository).

Deliver in the directory {out}/ (create it): `patch.diff` (output of `git -C {wt} diff`), `demo.py`, and `meta.json` with keys: property ("{pid}"), summary (one paragraph: what was changed and why it breaks the property), needs (what specific condition is needed for it to manifest), ran (the commands you ran and their outcomes). Leave the change applied in the worktree when you finish. Final message: the summary, in 5 lines at most.""")
