#!/usr/bin/env python3
"""Regenerates /verif/MANIFEST.json from the harness modules that exist (harness/cXX.py with a LEVEL_TEXT)."""
import json, re, importlib, sys
from pathlib import Path
V = Path(__file__).resolve().parent.parent
sys.path.insert(0, str(V))
props = [json.loads(l) for l in (V / "properties.jsonl").read_text().splitlines() if l.strip()]
NA = json.loads((V / "tools" / "not_applicable.json").read_text()) if (V / "tools" / "not_applicable.json").exists() else {}
CLAIMED = set(json.loads((V / "tools" / "claimed.json").read_text()))
checks, na = [], []
for p in props:
    pid = p["id"]
    f = V / "harness" / f"{pid.lower()}.py"
    if f.exists() and pid in CLAIMED:
        src = f.read_text()
        def grab(name, default=""):
            m = re.search(name + r'\s*=\s*\(?((?:\s*"(?:[^"\\]|\\.)*"\s*)+)\)?', src)
            if not m: return default
            return "".join(json.loads(s) for s in re.findall(r'"(?:[^"\\]|\\.)*"', m.group(1)))
        checks.append({
            "property_id": pid,
            "quick_cmd": f"./check {pid} --tier quick",
            "thorough_cmd": f"./check {pid} --tier thorough",
            "evidence_file": f"/verif/evidence/{pid}.json",
            "replay_cmd_template": f"./check {pid} --replay {{path}}",
            "engine": "lean4-proof+differential-correspondence",
            "level_claimed": {"category": "proof", "text": grab("LEVEL_TEXT", "Lean 4 theorems about a hand-written model, tied to /repo by exact differential execution on every run."), "design_ref": f"DESIGN.md §5 {pid}"},
            "level_note": grab("LEVEL_NOTE", "Trusted: Lean kernel, axioms {propext, Classical.choice, Quot.sound}, the hand-written model's tie to the code (differential, sees what its generators reach), harness drivers; JAX AD/PRNG/XLA modelled by contract."),
            "technique": grab("TECHNIQUE", "Lean 4 machine-checked proof over a hand-written model + differential correspondence check"),
        })
    else:
        na.append({"property_id": pid, "reason": NA.get(pid, "check not built yet in this round (planned: DESIGN.md §5)")})
man = {
    "version": 1,
    "setup_cmd": "/verif/tools/lbuild.sh",
    "hooks": {
        "guard": "JINNS_VERIF",
        "enable": "JINNS_VERIF=1 in the environment of the harness process (set by ./check)",
        "baseline_off_cmd": "/verif/tools/run_baseline.sh",
        "source_commits": json.loads((V / "tools" / "hook_commits.json").read_text()) if (V / "tools" / "hook_commits.json").exists() else [],
        "add_only": True,
    },
    "engines": [{"name": "lean4-proof+differential-correspondence", "path": "/verif/check",
                 "serves_properties": [c["property_id"] for c in checks],
                 "kind_free_text": "Lean 4 library (lean/JinnsModel executable model, lean/JinnsProofs theorems) + Python harness running real jinns and piping traces to the model driver"}],
    "checks": checks,
    "not_applicable": na,
    "notes": "See DESIGN.md. exit 0 = held; 1 = VIOLATION line; 2 = infrastructure failure (timeouts, tool errors).",
}
(V / "MANIFEST.json").write_text(json.dumps(man, indent=1))
print("checks:", [c["property_id"] for c in checks], "na:", len(na))
