#!/bin/bash
# usage: process_seed.sh C02 d   -> confirm, file under /verif/seeded, remove scratch worktree, run detection
p=$1; tag=$2; id=$p-$tag
cd /verif
tools/seed_confirm.sh /tmp/mut-$p-$tag.out $id > /root/scratch/confirm-$id.log 2>&1
git -C /repo worktree remove --force /tmp/mut-$p-$tag 2>/dev/null
rm -rf /tmp/mut-$p-$tag.out /tmp/confirm-$id-*
VERIF_WORKERS=5 tools/seed_matrix.sh $id > /root/scratch/detect-$id.log 2>&1
echo "$id $(tail -1 /root/scratch/confirm-$id.log | cut -c1-60) || $(tail -1 /root/scratch/detect-$id.log | cut -c1-150)" >> /root/scratch/round_$tag.log
