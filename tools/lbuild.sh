#!/bin/bash
# lake build under the shared lock.  usage: tools/lbuild.sh [targets...]   (no target = everything)
cd "$(dirname "$0")/../lean"
python3 ../tools/gen_lean_index.py
exec flock .build.lock lake build "$@"
