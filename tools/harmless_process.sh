#!/bin/bash
# usage: tools/harmless_process.sh C04 h2 -> confirm, file under /verif/harmless/C04-h2, remove scratch worktree, silence matrix
p=$1; tag=$2; id=$p-$tag
cd "$(dirname "$0")/.."
[ -d /tmp/mut-$p-$tag.out ] || { echo "no candidate for $id"; exit 0; }
tools/harmless_confirm.sh /tmp/mut-$p-$tag.out $id > /root/scratch/hconfirm-$id.log 2>&1
git -C /repo worktree remove --force /tmp/mut-$p-$tag 2>/dev/null
rm -rf /tmp/mut-$p-$tag.out /tmp/confirm-$id-*
VERIF_WORKERS=4 python3 tools/harmless_matrix.py $id > /root/scratch/hsilence-$id.log 2>&1
echo "$id $(tail -1 /root/scratch/hconfirm-$id.log | cut -c1-70) || $(grep -c "'exit': 0" /root/scratch/hsilence-$id.log) silent, non-silent: $(grep -v "'exit': 0" /root/scratch/hsilence-$id.log | tr '\n' ' ' | cut -c1-300)" >> /root/scratch/round_$tag.log
