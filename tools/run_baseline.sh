#!/bin/bash
# Runs the pinned baseline suite of /repo (guard off) and checks the 51 stable tests pass.
# usage: tools/run_baseline.sh [outdir]
out=${1:-/root/scratch/baseline}
mkdir -p "$out"
unset JINNS_VERIF
cd /repo && JAX_PLATFORMS=cpu /venv/bin/python -m pytest -ra -q -p no:cacheprovider --timeout=900 --continue-on-collection-errors --junitxml="$out/junit.xml" > "$out/log.txt" 2>&1
python3 - "$out/junit.xml" <<'PY'
import sys, json, xml.etree.ElementTree as ET
stable=set(json.load(open('/root/.vp/BASELINE.json'))['stable_pass'])
t=ET.parse(sys.argv[1]); ok=set()
for tc in t.iter('testcase'):
    name=tc.get('classname')+'::'+tc.get('name')
    if not any(c.tag in('failure','error','skipped') for c in tc): ok.add(name)
missing=sorted(stable-ok)
print('stable passing:',len(stable&ok),'/',len(stable)); print('missing:',missing)
sys.exit(1 if missing else 0)
PY
