#!/venv/bin/python
"""Which lines of /repo/jinns do the correspondence runs execute?  (Python lines run at trace time too, so a
branch of library code that no generated case reaches shows up as missing.)
usage: tools/coverage_report.py [--tier quick] [Cxx ...]   -> coverage/<tier>/report.txt, coverage/<tier>/missing.json
Not part of any registered check; a development aid for the generators (DESIGN §2.3 "measure what the
generators reach")."""
import json, os, subprocess, sys, shutil
from pathlib import Path
V = Path(__file__).resolve().parent.parent
args = sys.argv[1:]
tier = "quick"
if "--tier" in args:
    i = args.index("--tier"); tier = args[i + 1]; del args[i:i + 2]
combine_only = "--combine-only" in args
if combine_only: args.remove("--combine-only")
props = args or json.load(open(V / "tools" / "claimed.json"))
out = V / "coverage" / tier
data = Path("/root/scratch/covdata-" + tier)
if not combine_only:
    shutil.rmtree(data, ignore_errors=True); data.mkdir(parents=True)
per_prop = {}
for p in ([] if combine_only else props):
    d = data / p; d.mkdir()
    env = dict(os.environ, VERIF_COVERAGE_DIR=str(d), VERIF_EVIDENCE_DIR="/root/scratch/cov-evidence",
               VERIF_REPLAY_DIR="/root/scratch/cov-replay")
    r = subprocess.run([str(V / "check"), p, "--tier", tier], env=env, capture_output=True, text=True)
    print(p, "rc", r.returncode, r.stdout.strip().splitlines()[-1] if r.stdout.strip() else r.stderr[-300:], flush=True)
import coverage
out.mkdir(parents=True, exist_ok=True)
files = [str(f) for f in data.rglob(".coverage.*")]
cov = coverage.Coverage(data_file=str(data / ".coverage.all"), branch=True)
cov.combine(files, keep=True); cov.save()
missing = {}
with open(out / "report.txt", "w") as fh:
    cov.report(file=fh, show_missing=True, omit=["*/plot/*", "*/experimental/*", "*/_save_load.py"])
for f in sorted(cov.get_data().measured_files()):
    if any(x in f for x in ("/plot/", "/experimental/", "_save_load")): continue
    _, stm, exc, miss, _ = cov.analysis2(f)
    missing[f.split("/jinns/", 1)[-1]] = {"statements": len(stm), "missing": miss}
json.dump(missing, open(out / "missing.json", "w"), indent=1)
print(open(out / "report.txt").read())
