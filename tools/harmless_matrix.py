#!/usr/bin/env python3
"""Runs every harmless refactor (harmless/<id>/patch.diff) against every check whose property is anchored in a
file the patch touches; expects exit 0 and no VIOLATION.  Writes harmless/<id>/silence.json."""
import json, re, subprocess, sys, time
from pathlib import Path
V = Path(__file__).resolve().parent.parent
FILEMAP = {
    "_DataGenerators.py": ["C08", "C09", "C14", "C15", "C16", "C17", "C20"],
    "_rar.py": ["C16", "C17"],
    "_solve.py": ["C07", "C18", "C19", "C16"],
    "_loss_utils.py": ["C03", "C04", "C05", "C06", "C11", "C12", "C13", "C20"],
    "_LossODE.py": ["C03", "C05", "C06", "C12", "C13", "C20"],
    "_LossPDE.py": ["C03", "C04", "C05", "C06", "C12", "C13", "C20"],
    "_boundary_conditions.py": ["C04", "C11"],
    "_operators.py": ["C01", "C02", "C11"],
    "_DynamicLoss.py": ["C02", "C11"],
    "_DynamicLossAbstract.py": ["C02", "C12"],
    "_params.py": ["C05", "C06", "C12", "C13", "C20"],
    "_derivative_keys.py": ["C06", "C12"],
    "_pinn.py": ["C10"], "_spinn.py": ["C10", "C11"], "_hyperpinn.py": ["C10"],
    "_utils.py": ["C11", "C18"], "_validation.py": ["C19"],
}
ids = sys.argv[1:] or sorted(p.name for p in (V / "harmless").iterdir())
for id_ in ids:
    patch = (V / "harmless" / id_ / "patch.diff").read_text()
    files = sorted(set(re.findall(r"^\+\+\+ b/(\S+)", patch, re.M)))
    props = sorted({p for f in files for p in FILEMAP.get(f.split("/")[-1], [])} | {id_.split("-")[0]})
    res = {}
    for p in props:
        out = subprocess.run([str(V / "tools" / "harmless_run.sh"), id_, p], capture_output=True, text=True).stdout
        rc = re.findall(r"exit=(\d+)", out)
        res[p] = {"exit": int(rc[-1]) if rc else -1, "violation_line": next((l for l in out.splitlines() if l.startswith("VIOLATION")), "")}
        print(id_, p, res[p], flush=True)
    json.dump({"harmless": id_, "files": files, "checks": res, "silent": all(r["exit"] == 0 for r in res.values()),
               "at": time.strftime("%Y-%m-%d %H:%M:%S")}, open(V / "harmless" / id_ / "silence.json", "w"), indent=1)
