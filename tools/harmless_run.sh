#!/bin/bash
# Rehearsal of a seeded change WITHOUT touching /repo: applies harmless/<id>/patch.diff in a scratch
# worktree of /repo, runs the given checks against it (JINNS_REPO), removes the worktree.
# usage: tools/seed_run.sh <seeded-id> <PROP> [<PROP>...]     env: VERIF_TIER (default quick)
id=$1; shift
V=$(cd "$(dirname "$0")/.." && pwd)
wt=/tmp/seedwt-$id-$$
git -C /repo worktree add -q --detach "$wt" HEAD || exit 2
git -C "$wt" apply "$V/harmless/$id/patch.diff" || { echo "patch does not apply"; git -C /repo worktree remove --force "$wt"; exit 2; }
rc=0
for p in "$@"; do
  out=$(JINNS_REPO="$wt" VERIF_EVIDENCE_DIR=/tmp/seed-evidence-$$ VERIF_REPLAY_DIR="$V/replay/harmless-$id" "$V/check" "$p" --tier "${VERIF_TIER:-quick}" 2>&1); crc=$?
  echo "$out" | grep -E "VIOLATION|KNOWN-FINDING|^\[|INFRA"
  echo "seeded=$id check=$p exit=$crc"
done
git -C /repo worktree remove --force "$wt"; rm -rf /tmp/seed-evidence-$$
